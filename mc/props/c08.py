"""C08 - scattering layers compute the defined DTCWT scattering coefficients (deviation-bounded input exploration)."""
import itertools

import numpy as np

from .. import common, scat
from ..common import Res

PID = 'C08'
LEVEL = 'exploration'
VALS = [1.0, -1.0, 1e-3, 1e3]
RULE = ('layer configuration lattice (biort incl. near_sym_b_bp, qshift incl. qshift_b_bp, magbias in {0,1e-3,1e-2,1,10}, combine_colour off with '
        'C in {1,2} / on with C=3) x sizes x deviation-bounded inputs: ALL images with at most k non-zero entries (k=0,1 everywhere, k=2 on the '
        'smallest sizes) with values from {1,-1,1e-3,1e3}, plus a dense table and all its 1-pixel perturbations. Oracle: NumPy composition of the '
        'formulas of C08 over the reference dtcwt transform (2x2 mean of the level-1 lowpass, sqrt(re^2+im^2(+colour sum)+b^2)-b, band-major '
        'stacking; two-scale second-order cascade, 49 bands), tolerance 1e-9*(scale+b); every magnitude channel >= 0; documented output shapes '
        'for every size 2..17; values on non-conforming sizes against the border-repeated image (first order: last row/column repeated; second '
        'order: first (8-rem)//2 rows/columns repeated in front and last (9-rem)//2 behind). distinct_nontrivial = distinct output patterns (hash of the '
        'rounded output) over all evaluated inputs')
ASSUMPTIONS = ['bounded evidence for a non-linear function: all inputs within the deviation bound, not all of R^n (DESIGN section 7)',
               'reference DTCWT operators are extracted from the impulse basis and applied by matrix product; validated against direct reference calls on the dense table']
CHUNK = 1
BIORTS = ['near_sym_a', 'near_sym_b', 'near_sym_b_bp', 'antonini', 'legall']
MAGB = [0.0, 1e-3, 1e-2, 1.0, 10.0]


def plan(tier):
    q = tier == 'quick'
    items = []
    ev = [2, 4, 6, 8, 12] if q else [2, 4, 6, 8, 10, 12, 14, 16]
    for b in BIORTS:
        for (h, w) in [(h, w) for h in ev for w in ev]:
            if q and (h + w) % 3 == 2 and (h, w) != (12, 12) and h != w:
                continue
            items.append({'layer': 1, 'biort': b, 'qshift': None, 'h': h, 'w': w, 'values': True})
        for (h, w) in [(3, 3), (5, 4), (4, 7), (9, 9)] + ([] if q else [(11, 6), (13, 13), (17, 2)]):
            items.append({'layer': 1, 'biort': b, 'qshift': None, 'h': h, 'w': w, 'values': True})
    m8 = [(8, 8), (8, 16), (16, 8)] if q else [(8, 8), (8, 16), (16, 8), (16, 16), (24, 8), (8, 24), (32, 8)]
    pairs = [(b, qs) for b in BIORTS if not b.endswith('_bp') for qs in ['qshift_06', 'qshift_a', 'qshift_b', 'qshift_c', 'qshift_d']] + [('near_sym_b_bp', 'qshift_b_bp')]
    for pi, (b, qs) in enumerate(pairs):
        for si, (h, w) in enumerate(m8):
            if q and (pi + si) % 3 and (b, qs) not in (('near_sym_a', 'qshift_a'), ('near_sym_b_bp', 'qshift_b_bp')):
                continue
            items.append({'layer': 2, 'biort': b, 'qshift': qs, 'h': h, 'w': w, 'values': True})
    # shape / extension / non-negativity for every size 2..17 (both layers), one filter set each
    for h in range(2, 18):
        for w in ([2, 5, 8, 11] if q else range(2, 18)):
            items.append({'layer': 1, 'biort': 'near_sym_a', 'qshift': None, 'h': h, 'w': w, 'values': False})
            items.append({'layer': 2, 'biort': 'near_sym_a', 'qshift': 'qshift_a', 'h': h, 'w': w, 'values': False})
            if (h + w) % 4 == 0:
                items.append({'layer': 2, 'biort': 'near_sym_b_bp', 'qshift': 'qshift_b_bp', 'h': h, 'w': w, 'values': False})
    return items


def bounds(tier):
    return {'biort': BIORTS, 'magbias': MAGB, 'values': VALS, 'k': '0,1 on all sizes; 2 on sizes with <= 16 entries (first order) / C*64 <= 64 (second order)'}


def required_regimes(tier):
    return {'layer:1', 'layer:2', 'bp', 'colour', 'C:2', 'k:2', 'k:1', 'k:0', 'dense', 'magbias:0', 'odd_size_values', 'extended_size_values', 'size:2', 'input:requires_grad'}


def _inputs(C, H, W, k2):
    P = C * H * W
    rows = [np.zeros((1, P))]
    kinds = ['k:0']
    for v in VALS:
        rows.append(v * np.eye(P))
        kinds += ['k:1'] * P
    if k2:
        pr = list(itertools.combinations(range(P), 2))
        for (va, vb) in [(1.0, 1.0), (1.0, -1.0), (1e3, 1e-3), (-1.0, 1e3)]:
            M = np.zeros((len(pr), P))
            M[np.arange(len(pr)), [p[0] for p in pr]] = va
            M[np.arange(len(pr)), [p[1] for p in pr]] = vb
            rows.append(M)
            kinds += ['k:2'] * len(pr)
    ar = np.arange(P)
    dense = np.stack([np.ones(P), (-1.0) ** ar, ar / max(1, P - 1), np.cos(1.3 * ar + 0.4), 100 * np.sin(0.37 * ar * ar)])
    rows.append(dense)
    kinds += ['dense'] * len(dense)
    for dv in dense[2:4]:
        rows.append(dv[None, :] + np.eye(P))
        kinds += ['dense'] * P
    return np.concatenate(rows).reshape(-1, C, H, W), kinds


def _ext_index(n):
    """Model of the documented extension to a multiple of 8: the first (8-rem)//2 rows are repeated in front and the last
    (9-rem)//2 rows behind (for rem = 7 this is the reference's own 'repeat the last row'); indices wrap for tiny inputs."""
    rem = n % 8
    if rem == 0:
        return np.arange(n)
    before, after = (8 - rem) // 2, (9 - rem) // 2
    return np.concatenate([np.arange(before) % n, np.arange(n), np.arange(n - after, n) % n])


def _extend8(X):
    return X[:, :, _ext_index(X.shape[2])][:, :, :, _ext_index(X.shape[3])]


def run(item):
    common.init_worker()
    import torch
    from pytorch_wavelets import ScatLayer, ScatLayerj2
    res = Res()
    layer, b, qs, H, W = item['layer'], item['biort'], item['qshift'], item['h'], item['w']
    base_tags = ['layer:%d' % layer]
    if b.endswith('_bp'):
        base_tags.append('bp')
    if min(H, W) == 2:
        base_tags.append('size:2')
    res.state(layer, b, qs, H, W)
    conform = (H % 2 == 0 and W % 2 == 0) if layer == 1 else (H % 8 == 0 and W % 8 == 0)
    exp_hw = ((H + 1) // 2, (W + 1) // 2) if layer == 1 else (2 * ((H + 7) // 8), 2 * ((W + 7) // 8))
    for colour, C in ((False, 1), (False, 2), (True, 3)):
        if not item['values'] and C == 2:
            continue
        X, kinds = _inputs(C, H, W, k2=item['values'] and (C * H * W <= (16 if layer == 1 else 64)))
        if not item['values']:
            keep = [i for i, k in enumerate(kinds) if k != 'k:2'][:: max(1, len(kinds) // 40)]
            X = X[keep]
            kinds = [kinds[i] for i in keep]
        xt = torch.as_tensor(X)
        ref_cache = {}
        for mb in (MAGB if item['values'] else [1e-2]):
            cfg = {'layer': layer, 'biort': b, 'qshift': qs, 'h': H, 'w': W, 'magbias': mb, 'combine_colour': colour, 'C': C}
            tags = list(base_tags) + (['colour'] if colour else []) + (['C:2'] if C == 2 else []) + (['magbias:0'] if mb == 0 else [])
            try:
                mod = ScatLayer(biort=b, magbias=mb, combine_colour=colour) if layer == 1 else \
                    ScatLayerj2(biort=b, qshift=qs, magbias=mb, combine_colour=colour)
                with torch.no_grad():
                    Z = mod(xt).numpy()
            except Exception as e:
                res.violation('scat_forward', cfg, {'kind': 'raise', 'exc': repr(e)[:200]}, tags)
                continue
            res['impl_calls'] += 1
            res['evals'] += X.shape[0]
            res.regime(*tags)
            res.regime(*set(kinds))
            # the same batch as an input that requires grad (autograd recording): identical values
            try:
                Zg = mod(xt[:64].clone().requires_grad_(True)).detach().numpy()
                res.regime('input:requires_grad')
                if Zg.shape != Z[:64].shape or not np.array_equal(Zg, Z[:64]):
                    res.violation('scat_values', dict(cfg, input_requires_grad=True), {'kind': 'value', 'maxdev': float(np.abs(Zg - Z[:64]).max()) if Zg.shape == Z[:64].shape else None,
                                                                                        'what': 'output differs between a plain input and one that requires grad'}, tags)
            except Exception as e:
                res.violation('scat_forward', dict(cfg, input_requires_grad=True), {'kind': 'raise', 'exc': repr(e)[:200]}, tags)
            nch = (7 * C if layer == 1 else 49 * C) if not colour else (9 if layer == 1 else 51)
            if Z.shape != (X.shape[0], nch) + exp_hw:
                res.violation('scat_forward', cfg, {'kind': 'shape', 'observed': list(Z.shape[1:]), 'expected': [nch] + list(exp_hw)}, tags)
                continue
            if not np.isfinite(Z).all():
                res.violation('scat_forward', cfg, {'kind': 'nonfinite'}, tags)
                continue
            # true magnitude channels only: in the second-order layer bands 1..6 are lowpass-filtered first-order terms (may be < 0)
            if colour:
                mags = Z[:, 3:] if layer == 1 else Z[:, 9:]
            else:
                mags = Z.reshape(X.shape[0], -1, C, *exp_hw)[:, (1 if layer == 1 else 7):]
            if mags.min() < 0:
                i = int(np.argwhere(mags < 0)[0][0])
                res.violation('magnitude_nonnegative', dict(cfg, input_index=i, input_kind=kinds[i]), {'kind': 'negative', 'min': float(mags.min())}, tags)
            # hash of output patterns (distinct_nontrivial)
            rz = np.round(Z.reshape(Z.shape[0], -1) / max(1e-30, np.abs(Z).max()), 9)
            for hsh in {hash(r.tobytes()) for r in rz[:: max(1, len(rz) // 64)]}:
                res['ophashes'].append('%x' % (hsh & 0xffffffffffff))
            if layer == 1 and not item['values']:
                res.regime('shape_only_sizes')
                continue
            if not conform:
                res.regime('odd_size_values' if layer == 1 else 'extended_size_values')
            if layer == 1:
                R = scat.scat1_ref(X, b, mb, colour)
            else:
                R = scat.scat2_ref(X if conform else _extend8(X), b, qs, mb, colour)
            xm = np.abs(X).reshape(X.shape[0], -1).max(axis=1)
            tol = 1e-9 * (np.maximum(1.0, 8.0 * xm) + mb)
            dev = np.abs(Z - R).reshape(X.shape[0], -1).max(axis=1)
            bad = np.where(dev > tol)[0]
            if len(bad):
                i = int(bad[np.argmax(dev[bad] / tol[bad])])
                j = int(np.abs(Z[i] - R[i]).reshape(-1).argmax())
                nzp = [[int(p) for p in idx] for idx in np.argwhere(X[i] != 0)[:4]]
                res.violation('scat_values', dict(cfg, input_kind=kinds[i], input_nonzeros=nzp, input_values=[float(X[i][tuple(p)]) for p in nzp]),
                              {'kind': 'value', 'maxdev': float(dev[i]), 'tol': float(tol[i]), 'flat_output_index': j,
                               'observed': float(Z[i].reshape(-1)[j]), 'expected': float(R[i].reshape(-1)[j]), 'n_bad_inputs': int(len(bad))}, tags)
        # direct (non-matrix) reference calls on the dense rows validate the operator shortcut of the reference model
        if item['values'] and conform and not colour and C == 1:
            import dtcwt
            t = dtcwt.Transform2d(biort=b, qshift=qs or 'qshift_a')
            di = [i for i, k in enumerate(kinds) if k == 'dense'][:3]
            for i in di:
                p = t.forward(X[i, 0], nlevels=layer, include_scale=True)
                L, Hh = scat._level(X[i:i + 1], b, qs or ('qshift_b_bp' if b.endswith('_bp') else 'qshift_a'), layer)
                hp = np.moveaxis(p.highpasses[layer - 1], 2, 0)
                if common.maxabs(hp - Hh[layer - 1][0, 0]) > 1e-9 * max(1.0, common.maxabs(hp)) or common.maxabs(p.scales[layer - 1] - L[layer - 1][0, 0]) > 1e-9 * max(1.0, common.maxabs(p.scales[layer - 1])):
                    res.violation('reference_model_selfcheck', {'biort': b, 'qshift': qs, 'h': H, 'w': W}, {'kind': 'reference'}, [])
        if item['values'] and (H, W) in ((4, 4), (8, 8)) and colour is False and C == 1:
            res.sample({'layer': layer, 'biort': b, 'qshift': qs, 'h': H, 'w': W, 'inputs': int(X.shape[0]),
                        'kinds': {k: kinds.count(k) for k in set(kinds)}, 'magbias': MAGB})
    return res
