import sys, threading, time, warnings, logging
logging.disable(logging.WARNING); warnings.simplefilter('ignore')
import torch
torch.set_num_threads(1)
import pytorch_wavelets as pw
from pytorch_wavelets import DWTForward, DTCWTForward, DTCWTInverse
LIB='/repo/pytorch_wavelets'
# count line events in library frames for some ops
def count(fn):
    n=[0]
    def tr(frame,event,arg):
        if not frame.f_code.co_filename.startswith(LIB): return None
        def local(frame,event,arg):
            if event=='line': n[0]+=1
            return local
        return local
    sys.settrace(tr); 
    try: fn()
    finally: sys.settrace(None)
    return n[0]
x=torch.randn(1,1,4,4)
d=DWTForward(J=1,wave='db2',mode='periodization')
print('dwt call lines',count(lambda: d(x)))
t0=time.time(); [d(x) for _ in range(200)]; print('dwt call ms',(time.time()-t0)*5)
print('dtcwt construct lines',count(lambda: DTCWTForward(J=1)))
f=DTCWTForward(J=2)
x8=torch.randn(1,1,8,8)
print('dtcwt J2 call lines',count(lambda: f(x8)))
t0=time.time(); [f(x8) for _ in range(100)]; print('dtcwt call ms',(time.time()-t0)*10)
xg=torch.randn(1,1,8,8,requires_grad=True)
def fb():
    yl,yh=f(xg); (yl.sum()+yh[0].sum()).backward()
print('dtcwt J2 fwd+bwd lines',count(fb))
# does backward run in calling thread?
import pytorch_wavelets.dtcwt.transform_funcs as tf
orig=tf.FWD_J1.backward
def spy(ctx,*a):
    print('backward thread is caller:', threading.current_thread() is threading.main_thread()); return orig(ctx,*a)
tf.FWD_J1.backward=staticmethod(spy)
fb()
