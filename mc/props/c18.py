"""C18 - shipped DTCWT filter tables equal the reference package's and satisfy the identities the code relies on."""
import glob
import itertools
import os

import numpy as np

from .. import common
from ..common import Res

PID = 'C18'
LEVEL = 'exploration'
RULE = ('finite and complete: every .npz under pytorch_wavelets/dtcwt/data and every name the loaders\' docstrings list; every array of '
        'every table: bit-equality with the array of the same key in the reference dtcwt package\'s table of the same name (file level and '
        'through the loaders biort()/level1()/qshift()); level-1 filters equal their reverse, h0o*g0o + h1o*g1o is a unit impulse and '
        'g0o = (-1)^n h1o, g1o = (-1)^n h0o (band-pass h2o/g2o: symmetric, g2o = h2o); q-shift: sum h[n]h[n+2k] = delta_k for h0 and h1, '
        'h0/h1 shift-orthogonal, *b = reverse(*a), g* = reverse(h*) (band-pass h2*/g2* included for the reversal clauses); loading a name '
        'twice and after every ordered pair of other names (all 3-permutations) returns equal values; constructing any consumer of the tables (all transform and scattering modules, the 4-DWT variants, DWT modules fed loader arrays) leaves the cached tables bit-identical and no module tensor shares memory with them; distinct_nontrivial = distinct '
        'arrays hashed')
ASSUMPTIONS = ['the installed dtcwt 0.14 package carries the reference tables',
               'tables with no reference counterpart that no transform loads by default (farras, near_sym_a2) only get the load-twice clause']
CHUNK = 1
LEVEL1 = ['antonini', 'legall', 'near_sym_a', 'near_sym_b', 'near_sym_b_bp']
QSHIFT = ['qshift_06', 'qshift_a', 'qshift_b', 'qshift_c', 'qshift_d', 'qshift_b_bp', 'qshift_32']
UNDOC = ['farras', 'near_sym_a2']


def data_dir():
    return os.path.join(common.REPO, 'pytorch_wavelets', 'dtcwt', 'data')


def bounds(tier):
    return {'tables': sorted(os.path.basename(f)[:-4] for f in glob.glob(data_dir() + '/*.npz')), 'load_orders': 'all 3-permutations of the loadable names'}


def plan(tier):
    names = sorted(os.path.basename(f)[:-4] for f in glob.glob(data_dir() + '/*.npz'))
    items = [{'kind': 'table', 'name': n} for n in sorted(set(names) | set(LEVEL1) | set(QSHIFT))]
    items.append({'kind': 'consumers'})
    loadable = LEVEL1 + QSHIFT
    perms = list(itertools.permutations(loadable, 3))
    for i in range(0, len(perms), 120):
        items.append({'kind': 'orders', 'perms': [list(p) for p in perms[i:i + 120]]})
    return items


def required_regimes(tier):
    return {'level1', 'qshift', 'bandpass', 'vs_reference_file', 'vs_reference_loader', 'load_orders', 'undocumented', 'consumers'}


def _load(name):
    import pytorch_wavelets.dtcwt.coeffs as ic
    if name in LEVEL1:
        keys = ['h0o', 'g0o', 'h1o', 'g1o'] + (['h2o', 'g2o'] if name.endswith('_bp') else [])
        return dict(zip(keys, ic.level1(name, compact=True)))
    keys = ['h0a', 'h0b', 'g0a', 'g0b', 'h1a', 'h1b', 'g1a', 'g1b'] + (['h2a', 'h2b', 'g2a', 'g2b'] if name.endswith('_bp') else [])
    return dict(zip(keys, ic.qshift(name)))


def _ref_load(name):
    import dtcwt.coeffs as rc
    if name in LEVEL1:
        keys = ['h0o', 'g0o', 'h1o', 'g1o'] + (['h2o', 'g2o'] if name.endswith('_bp') else [])
        return dict(zip(keys, rc.biort(name)))
    keys = ['h0a', 'h0b', 'g0a', 'g0b', 'h1a', 'h1b', 'g1a', 'g1b'] + (['h2a', 'h2b', 'g2a', 'g2b'] if name.endswith('_bp') else [])
    return dict(zip(keys, rc.qshift(name)))


def _csum(a, b):
    n = max(len(a), len(b))
    out = np.zeros(n)
    for c in (a, b):
        o = (n - len(c)) // 2
        out[o:o + len(c)] += c
    return out


def _alt(h):
    k = np.arange(len(h)) - len(h) // 2
    return h * (-1.0) ** k


def _consumers():
    """Every place in the library that takes filter arrays from the loaders (name -> constructor)."""
    import pytorch_wavelets as pw
    import pytorch_wavelets.dtcwt.coeffs as ic
    from pytorch_wavelets.dtcwt import lowlevel2
    from pytorch_wavelets.dwt.transform2d import SWTForward
    out = {}
    for b in ('near_sym_a', 'near_sym_b', 'antonini', 'legall'):
        out['DTCWTForward(%s)' % b] = lambda b=b: pw.DTCWTForward(biort=b, qshift='qshift_b', J=2)
        out['DTCWTInverse(%s)' % b] = lambda b=b: pw.DTCWTInverse(biort=b, qshift='qshift_b')
    for q in ('qshift_06', 'qshift_a', 'qshift_b', 'qshift_c', 'qshift_d'):
        out['DTCWTForward(%s)' % q] = lambda q=q: pw.DTCWTForward(qshift=q, J=2)
        out['DTCWTInverse(%s)' % q] = lambda q=q: pw.DTCWTInverse(qshift=q)
        out['DWTInverse(taps of %s)' % q] = lambda q=q: pw.DWTInverse(wave=(ic.qshift(q)[2], ic.qshift(q)[6]))
        out['DWTForward(taps of %s)' % q] = lambda q=q: pw.DWTForward(wave=(ic.qshift(q)[0], ic.qshift(q)[4]))
        out['DWT1DInverse(taps of %s)' % q] = lambda q=q: pw.DWT1DInverse(wave=(ic.qshift(q)[2], ic.qshift(q)[6]))
    out['ScatLayer(near_sym_a)'] = lambda: pw.ScatLayer(biort='near_sym_a')
    out['ScatLayer(near_sym_b_bp)'] = lambda: pw.ScatLayer(biort='near_sym_b_bp')
    out['ScatLayerj2(bp)'] = lambda: pw.ScatLayerj2(biort='near_sym_b_bp', qshift='qshift_b_bp')
    out['ScatLayerj2(near_sym_a,qshift_a)'] = lambda: pw.ScatLayerj2(biort='near_sym_a', qshift='qshift_a')
    for bb in ('farras', 'near_sym_a2'):
        out['DTCWTForward2(%s)' % bb] = lambda bb=bb: lowlevel2.DTCWTForward2(biort=bb, qshift='qshift_a', J=2)
        out['DTCWTInverse2(%s)' % bb] = lambda bb=bb: lowlevel2.DTCWTInverse2(biort=bb, qshift='qshift_a')
    return out


def _run_consumers(res):
    """Constructing (twice) any module that takes its filters from the loaders leaves every cached table bit-identical, and no
    buffer / parameter of the module shares memory with a cached array (prep_filt copies)."""
    import torch
    import pytorch_wavelets.dtcwt.coeffs as ic
    old = torch.get_default_dtype()
    for dt in (torch.float64, torch.float32):
        torch.set_default_dtype(dt)
        try:
            for name, ctor in _consumers().items():
                ic.COEFF_CACHE.clear()
                cfg = {'consumer': name, 'default_dtype': str(dt)}
                res.state('consumer', name, str(dt))
                try:
                    m1 = ctor()
                except Exception as e:
                    res['notes'].append('consumer_not_constructible:%s' % name)
                    continue
                snap = {t: {k: np.array(v, copy=True) for k, v in tab.items()} for t, tab in ic.COEFF_CACHE.items()}
                try:
                    m2 = ctor()
                    m3 = ctor()
                except Exception as e:
                    res.violation('load_twice', cfg, {'kind': 'raise_on_second_construction', 'exc': repr(e)[:200]}, [])
                    continue
                res['evals'] += 1
                res['ophashes'].append(common.sha(cfg))
                for t, tab in snap.items():
                    for k, v in tab.items():
                        now = ic.COEFF_CACHE.get(t, {}).get(k)
                        if now is None or now.shape != v.shape or not np.array_equal(now, v):
                            res.violation('load_twice', dict(cfg, table=t, key=k), {'kind': 'cached_table_changed_by_consumer',
                                                                                    'maxdev': common.maxabs(now - v) if now is not None and now.shape == v.shape else None}, [])
                cached = [a for tab in ic.COEFF_CACHE.values() for a in tab.values() if isinstance(a, np.ndarray) and a.size]
                for mod in (m1, m2):
                    for tn, tt in list(mod.named_buffers()) + list(mod.named_parameters()):
                        try:
                            arr = tt.detach().numpy()
                        except Exception:
                            continue
                        if any(np.shares_memory(arr, a) for a in cached):
                            res.violation('load_twice', dict(cfg, tensor=tn), {'kind': 'module_tensor_aliases_cached_table'}, [])
                            break
        finally:
            torch.set_default_dtype(old)
    res.regime('consumers')
    res.sample({'consumers': sorted(_consumers())[:6], 'n_consumers': len(_consumers()), 'default_dtypes': ['float64', 'float32']})
    ic.COEFF_CACHE.clear()
    return res


def run(item):
    common.init_worker()
    res = Res()
    import pytorch_wavelets.dtcwt.coeffs as ic
    if item['kind'] == 'consumers':
        return _run_consumers(res)
    if item['kind'] == 'orders':
        base = {}
        for n in LEVEL1 + QSHIFT:
            ic.COEFF_CACHE.clear()
            base[n] = {k: np.array(v, copy=True) for k, v in _load(n).items()}
        for perm in item['perms']:
            ic.COEFF_CACHE.clear()
            for step, n in enumerate(perm + [perm[0]]):
                got = _load(n)
                res['evals'] += 1
                for k, v in got.items():
                    if v.shape != base[n][k].shape or not np.array_equal(v, base[n][k]):
                        res.violation('load_order', {'order': perm, 'step': step, 'name': n, 'key': k},
                                      {'kind': 'value', 'maxdev': common.maxabs(v - base[n][k]) if v.shape == base[n][k].shape else None},
                                      ['load_orders'])
            res['ophashes'].append(common.sha(perm))
        res.regime('load_orders')
        res.state('orders', common.sha(item['perms']))
        res.sample({'load_order': item['perms'][0] + [item['perms'][0][0]], 'compared_with': 'first load from an empty cache'})
        ic.COEFF_CACHE.clear()
        return res

    name = item['name']
    cfg = {'table': name}
    res.state('table', name)
    path = os.path.join(data_dir(), name + '.npz')
    if not os.path.exists(path):
        res.violation('table_present', cfg, {'kind': 'missing_file', 'path': path}, [])
        return res
    z = np.load(path)
    arrays = {k: z[k] for k in z.files if not k.startswith('__')}
    for k, v in arrays.items():
        res.op(np.asarray(v, dtype=np.float64).reshape(-1, 1) if v.size else np.zeros((1, 1)))
    # ---- against the reference package: file level
    import dtcwt.coeffs as rc
    rpath = os.path.join(os.path.dirname(rc.__file__), 'data', name + '.npz')
    if os.path.exists(rpath):
        rz = np.load(rpath)
        res.regime('vs_reference_file')
        for k in sorted(set(arrays) | {k for k in rz.files if not k.startswith('__')}):
            res['evals'] += 1
            if k not in arrays or k not in rz.files:
                res.violation('equals_reference_table', dict(cfg, key=k), {'kind': 'key_missing', 'in_shipped': k in arrays, 'in_reference': k in rz.files}, [])
            elif arrays[k].shape != rz[k].shape or not np.array_equal(arrays[k], rz[k]):
                res.violation('equals_reference_table', dict(cfg, key=k),
                              {'kind': 'value', 'maxdev': common.maxabs(arrays[k] - rz[k]) if arrays[k].shape == rz[k].shape else None,
                               'shape': list(arrays[k].shape), 'ref_shape': list(rz[k].shape)}, [])
    elif name in UNDOC:
        res.regime('undocumented')
        ic.COEFF_CACHE.clear()
        keys = tuple(sorted(arrays))
        a = ic._load_from_file(name, keys)
        b = ic._load_from_file(name, keys)
        res['evals'] += 1
        if any(not np.array_equal(x, y) for x, y in zip(a, b)):
            res.violation('load_twice', cfg, {'kind': 'value'}, [])
        return res
    else:
        res.violation('equals_reference_table', cfg, {'kind': 'no_reference_table'}, [])
    if name not in LEVEL1 + QSHIFT:
        return res
    # ---- through the loaders
    ic.COEFF_CACHE.clear()
    try:
        t = _load(name)
        t2 = _load(name)
        rt = _ref_load(name)
    except Exception as e:
        res.violation('loader', cfg, {'kind': 'raise', 'exc': repr(e)[:200]}, [])
        return res
    res.regime('vs_reference_loader')
    for k in t:
        res['evals'] += 2
        if not np.array_equal(t[k], t2[k]):
            res.violation('load_twice', dict(cfg, key=k), {'kind': 'value'}, [])
        if t[k].shape != rt[k].shape or not np.array_equal(t[k], rt[k]):
            res.violation('equals_reference_table', dict(cfg, key=k, via='loader'), {'kind': 'value'}, [])
    f = {k: np.asarray(v, dtype=np.float64).ravel() for k, v in t.items()}
    tol = 1e-12

    def ident(nm, ok, detail):
        res['evals'] += 1
        if not ok:
            res.violation('identity', dict(cfg, identity=nm), dict(detail, kind='identity'), [])

    if name in LEVEL1:
        res.regime('level1')
        for k in ('h0o', 'g0o', 'h1o', 'g1o'):
            ident('%s symmetric' % k, common.maxabs(f[k] - f[k][::-1]) <= tol, {'dev': common.maxabs(f[k] - f[k][::-1])})
            ident('%s odd length' % k, len(f[k]) % 2 == 1, {'len': len(f[k])})
        p = _csum(np.convolve(f['h0o'], f['g0o']), np.convolve(f['h1o'], f['g1o']))
        e = np.zeros_like(p)
        e[len(p) // 2] = 1.0
        ident('h0o*g0o + h1o*g1o = delta', common.maxabs(p - e) <= 1e-10, {'dev': common.maxabs(p - e)})
        ident('g0o = (-1)^n h1o', min(common.maxabs(f['g0o'] - _alt(f['h1o'])), common.maxabs(f['g0o'] + _alt(f['h1o']))) <= tol, {})
        ident('g1o = (-1)^n h0o', min(common.maxabs(f['g1o'] - _alt(f['h0o'])), common.maxabs(f['g1o'] + _alt(f['h0o']))) <= tol, {})
        if 'h2o' in f:
            res.regime('bandpass')
            ident('h2o symmetric', common.maxabs(f['h2o'] - f['h2o'][::-1]) <= tol, {})
            ident('g2o = reverse(h2o)', common.maxabs(f['g2o'] - f['h2o'][::-1]) <= tol, {})
    else:
        res.regime('qshift')
        L = len(f['h0a'])
        otol = 1e-8 if name == 'qshift_32' else 1e-12

        def ac(a, b, k):
            return float(np.dot(a[:L - 2 * k], b[2 * k:]))
        for a in ('h0', 'h1'):
            dev = max(abs(ac(f[a + 'a'], f[a + 'a'], k) - (k == 0)) for k in range(L // 2))
            ident('%sa orthonormal to its even shifts' % a, dev <= otol, {'dev': dev})
        dev = max(max(abs(ac(f['h0a'], f['h1a'], k)), abs(ac(f['h1a'], f['h0a'], k))) for k in range(L // 2))
        ident('h0a, h1a shift-orthogonal', dev <= otol, {'dev': dev})
        fams = ['h0', 'h1', 'g0', 'g1'] + (['h2', 'g2'] if 'h2a' in f else [])
        if 'h2a' in f:
            res.regime('bandpass')
        for a in fams:
            ident('%sb = reverse(%sa)' % (a, a), common.maxabs(f[a + 'b'] - f[a + 'a'][::-1]) <= tol, {})
        for a in [x[1] for x in fams if x[0] == 'h']:
            for tr in 'ab':
                ident('g%s%s = reverse(h%s%s)' % (a, tr, a, tr), common.maxabs(f['g' + a + tr] - f['h' + a + tr][::-1]) <= tol, {})
        ident('even length', L % 2 == 0, {'len': L})
    res.sample({'table': name, 'arrays': {k: list(v.shape) for k, v in arrays.items()}})
    ic.COEFF_CACHE.clear()
    return res
