"""C07 - every transform (and its backward map) is linear and acts independently and identically per (batch, channel)."""
import itertools

import numpy as np

from .. import common, dwt, dtc
from ..common import Res

PID = 'C07'
LEVEL = 'exploration'
RULE = ('for every transform family (1-D/2-D DWT forward+inverse, SWT, DTCWT forward+inverse incl. a non-default layout, and the '
        'backward map of each) x configuration sub-lattice (5 modes, short/long filters, odd sizes, J<=3): (1) T(0) is exactly zero; '
        '(2) superposition T(a e_i + b e_j) = a T(e_i) + b T(e_j) for ALL pairs i<j x coefficient grid {(1,1),(1,-1),(2,-3),(1e-3,1e3),(-0.5,1e6)}, '
        'homogeneity over 24 decades on every impulse and on dense vectors, dense + every impulse; (3) slice independence: for all '
        '(N,C) in {(1,2),(2,1),(2,3),(3,2)} (thorough: all of [1..4]^2), every (n,c) and every impulse i (every k-th impulse, offset by the slice, when a slice has more than 32 inputs), the input that is e_i in slice (n,c) only gives column i of the '
        'single-slice operator in slice (n,c) of every band and exact zeros in every other slice (full operator = kron(I, A)). '
        'distinct_nontrivial = distinct single-slice operators extracted')
ASSUMPTIONS = ['finite alphabet: a data-dependent branch that only triggers on values outside it would escape (DESIGN section 7)',
               'the advisory TorchDispatchMode taint monitor of DESIGN 3/C07 was not built']
CHUNK = 1
COEFS = [(1.0, 1.0), (1.0, -1.0), (2.0, -3.0), (1e-3, 1e3), (-0.5, 1e6)]
SCALES = [1e-12, 1e-6, 1e-3, -1.0, 2.0, 1e3, 1e6, 1e12]


def plan(tier):
    items = []
    q = tier == 'quick'
    for w in (['db2', 'bior2.4', 'db5'] if q else ['haar', 'db2', 'bior2.4', 'db5', 'rbio3.1', 'sym8']):
        for mode in dwt.MODES:
            for n in ([5, 8, 13] if q else [2, 5, 8, 13, 20]):
                for J in (1, 3):
                    for d in ('fwd', 'inv', 'fwd_bwd', 'inv_bwd'):
                        items.append({'fam': 'dwt1d', 'dir': d, 'wave': w, 'mode': mode, 'shape': [n], 'J': J})
    for w in (['db2', 'bior1.3'] if q else ['haar', 'db2', 'bior1.3', 'db4']):
        for mode in dwt.MODES:
            for hw in ([(4, 5), (7, 6)] if q else [(4, 5), (7, 6), (3, 3), (8, 9)]):
                for J in (1, 2):
                    for d in ('fwd', 'inv', 'fwd_bwd', 'inv_bwd'):
                        items.append({'fam': 'dwt2d', 'dir': d, 'wave': w, 'mode': mode, 'shape': list(hw), 'J': J})
    for w in ['db2', 'bior2.2']:
        for hw in [(4, 8), (8, 4)]:
            for J in (1, 2):
                for d in ('fwd', 'fwd_bwd'):
                    items.append({'fam': 'swt', 'dir': d, 'wave': w, 'mode': 'periodic', 'shape': list(hw), 'J': J})
    for (b, qs) in ([('near_sym_a', 'qshift_a'), ('antonini', 'qshift_c'), ('legall', 'qshift_06')] if q else dtc.PAIRS[::3]):
        for hw in [(4, 6), (5, 7), (8, 8)]:
            for J in (1, 2, 3):
                for lay in ([2, -1], [1, 3]):
                    for d in ('fwd', 'inv', 'fwd_bwd', 'inv_bwd'):
                        items.append({'fam': 'dtcwt', 'dir': d, 'biort': b, 'qshift': qs, 'shape': list(hw), 'J': J, 'layout': lay})
                if J <= 2 and hw != (8, 8):
                    for d in ('fwd', 'inv'):         # the level-1 zero-padding branch of the DTCWT
                        items.append({'fam': 'dtcwt', 'dir': d, 'biort': b, 'qshift': qs, 'shape': list(hw), 'J': J, 'layout': [2, -1], 'mode': 'zero'})
    for it in items:
        it['ncmax'] = 3 if q else 4
    return items


def bounds(tier):
    return {'families': ['dwt1d', 'dwt2d', 'swt', 'dtcwt'], 'directions': ['fwd', 'inv', 'fwd_bwd', 'inv_bwd'], 'N,C': '(1,2),(2,1),(2,3),(3,2)' if tier == 'quick' else 'all of 1..4 x 1..4',
            'coefficient_grid': COEFS, 'scales': SCALES}


def required_regimes(tier):
    return {'fam:dwt1d', 'fam:dwt2d', 'fam:swt', 'fam:dtcwt', 'dir:fwd', 'dir:inv', 'dir:fwd_bwd', 'dir:inv_bwd', 'zero', 'pairs', 'scales',
            'slices', 'layout:nondefault', 'odd_size', 'dtcwt:mode_zero', 'many_channels'}


# ---- transform descriptors: canon(tensor) puts (N, C) in front ------------------------------------------------------------

def _build(item):
    """Returns (in_shapes, apply) where apply(list of (N,C,*shape) tensors) -> list of (N,C,...) tensors."""
    import torch
    fam, J = item['fam'], item['J']
    shape = tuple(item['shape'])
    if fam == 'dwt1d':
        from pytorch_wavelets import DWT1DForward, DWT1DInverse
        F_, I_ = DWT1DForward(J=J, wave=item['wave'], mode=item['mode']), DWT1DInverse(wave=item['wave'], mode=item['mode'])

        def fwd(x):
            yl, yh = F_(x)
            return [yl] + list(yh)

        def inv(yl, *yh):
            return [I_((yl, list(yh)))]
    elif fam == 'dwt2d':
        from pytorch_wavelets import DWTForward, DWTInverse
        F_, I_ = DWTForward(J=J, wave=item['wave'], mode=item['mode']), DWTInverse(wave=item['wave'], mode=item['mode'])

        def fwd(x):
            yl, yh = F_(x)
            return [yl] + list(yh)

        def inv(yl, *yh):
            return [I_((yl, list(yh)))]
    elif fam == 'swt':
        from pytorch_wavelets.dwt.transform2d import SWTForward
        F_ = SWTForward(J=J, wave=item['wave'], mode=item['mode'])

        def fwd(x):
            return list(F_(x))
        inv = None
    else:
        from pytorch_wavelets import DTCWTForward, DTCWTInverse
        o, r = item['layout']
        F_ = DTCWTForward(biort=item['biort'], qshift=item['qshift'], J=J, o_dim=o, ri_dim=r, mode=item.get('mode', 'symmetric'))
        I_ = DTCWTInverse(biort=item['biort'], qshift=item['qshift'], o_dim=o, ri_dim=r, mode=item.get('mode', 'symmetric'))
        free = [d for d in range(6) if d != o % 6 and d != r % 6]

        def fwd(x):
            yl, yh = F_(x)
            return [yl] + [torch.movedim(t, (free[0], free[1]), (0, 1)) for t in yh]

        def inv(yl, *yh):
            return [I_((yl, [torch.movedim(t, (0, 1), (free[0], free[1])) for t in yh]))]
    x1 = torch.zeros((1, 1) + shape)
    with torch.no_grad():
        o1 = fwd(x1)
    pshapes = [tuple(t.shape[2:]) for t in o1]
    d = item['dir']
    if d == 'fwd':
        return [shape], lambda ins: fwd(ins[0])
    if d == 'inv':
        return pshapes, lambda ins: inv(*ins)
    if d == 'fwd_bwd':
        def bw(cots):
            n, c = cots[0].shape[:2]
            x = torch.zeros((n, c) + shape, requires_grad=True)
            outs = fwd(x)
            return list(torch.autograd.grad(outs, [x], grad_outputs=[ct.contiguous() for ct in cots]))
        return pshapes, bw
    with torch.no_grad():
        oshape = tuple(inv(*o1)[0].shape[2:])

    def bw2(cots):
        n, c = cots[0].shape[:2]
        ins = [torch.zeros((n, c) + s, requires_grad=True) for s in pshapes]
        out = inv(*ins)
        return list(torch.autograd.grad(out, ins, grad_outputs=[cots[0].contiguous()]))
    return [oshape], bw2


def _cat(outs):
    """list of (B, C, ...) -> (B, C, M)"""
    import torch
    return torch.cat([o.reshape(o.shape[0], o.shape[1], -1) for o in outs], dim=2)


def _inputs(in_shapes, V):
    """V: (B, P) coefficient matrix over the concatenated per-slice input coordinates -> list of (B,1,*shape) tensors."""
    import torch
    out = []
    off = 0
    for s in in_shapes:
        m = int(np.prod(s))
        out.append(torch.as_tensor(V[:, off:off + m]).reshape((V.shape[0], 1) + tuple(s)).clone())
        off += m
    return out


def run(item):
    common.init_worker()
    import torch
    res = Res()
    cfg = {k: v for k, v in item.items() if k != 'ncmax'}
    try:
        in_shapes, T = _build(item)
    except Exception as e:
        if item.get('mode') == 'reflect':
            res['ood'] += 1                                                     # reflect may raise on short levels (C01)
            return res
        res.violation('linearity', cfg, {'kind': 'raise_build', 'exc': repr(e)[:200]}, [])
        return res
    P = int(sum(int(np.prod(s)) for s in in_shapes))
    tags = ['fam:' + item['fam'], 'dir:' + item['dir']]
    if item.get('layout') and item['layout'] != [2, -1]:
        tags.append('layout:nondefault')
    if any(s % 2 for s in item['shape']):
        tags.append('odd_size')
    if item['fam'] == 'dtcwt' and item.get('mode') == 'zero':
        tags.append('dtcwt:mode_zero')
    res.state(common.sha(cfg))

    def apply(V):
        with torch.enable_grad():
            return _cat(T(_inputs(in_shapes, V)))[:, 0].detach().numpy()       # (B, M)

    try:
        A = apply(np.eye(P)).T                                                  # (M, P) single-slice operator
    except Exception as e:
        if item.get('mode') == 'reflect':
            res['ood'] += 1                                                     # reflect may raise on short levels (C01)
            return res
        res.violation('linearity', cfg, {'kind': 'raise', 'exc': repr(e)[:200]}, tags)
        return res
    res['impl_calls'] += 1
    res['evals'] += P
    res.regime(*tags)
    res.op(A)
    M = A.shape[0]
    gain = max(1.0, common.maxabs(A))
    # (1) T(0) == 0 exactly
    z = apply(np.zeros((1, P)))
    res['evals'] += 1
    res.regime('zero')
    if np.any(z != 0):
        res.violation('zero_maps_to_zero', cfg, {'kind': 'value', 'maxabs': common.maxabs(z)}, tags)
    # (2a) all pairs x coefficient grid
    pairs = list(itertools.combinations(range(P), 2))
    if len(pairs) > 3000:
        pairs = [p for p in pairs if (p[0] * 31 + p[1]) % (len(pairs) // 3000 + 1) == 0]
        res['notes'].append('pairs_subsampled_deterministically')
    for (a, b) in COEFS:
        for c0 in range(0, len(pairs), 2048):
            ch = pairs[c0:c0 + 2048]
            V = np.zeros((len(ch), P))
            idx = np.arange(len(ch))
            V[idx, [p[0] for p in ch]] = a
            V[idx, [p[1] for p in ch]] = b
            Y = apply(V)
            E = a * A[:, [p[0] for p in ch]].T + b * A[:, [p[1] for p in ch]].T
            res['evals'] += len(ch)
            tol = 1e-12 * (abs(a) + abs(b)) * gain
            dev = np.abs(Y - E)
            if dev.max() > tol:
                k = int(np.unravel_index(dev.argmax(), dev.shape)[0])
                res.violation('superposition', dict(cfg, a=a, b=b, i=int(ch[k][0]), j=int(ch[k][1])),
                              {'kind': 'value', 'maxdev': float(dev.max()), 'tol': tol}, tags)
                break
    res.regime('pairs')
    # (2b) homogeneity over 24 decades on impulses and dense vectors; dense + impulse
    dense = np.stack([np.ones(P), (-1.0) ** np.arange(P), np.arange(P) / max(1, P - 1), np.cos(1.3 * np.arange(P) + 0.4)])
    Yd = apply(dense)
    Ed = dense @ A.T
    res['evals'] += len(dense)
    if np.abs(Yd - Ed).max() > 1e-12 * gain * P:
        res.violation('superposition', dict(cfg, what='dense vector vs sum of columns'), {'kind': 'value', 'maxdev': float(np.abs(Yd - Ed).max())}, tags)
    for s in SCALES:
        V = np.concatenate([s * np.eye(P), s * dense])
        Y = apply(V)
        E = np.concatenate([s * A.T, s * Yd])
        res['evals'] += len(V)
        tol = 1e-12 * abs(s) * gain * P
        if np.abs(Y - E).max() > tol:
            res.violation('homogeneity', dict(cfg, scale=s), {'kind': 'value', 'maxdev': float(np.abs(Y - E).max()), 'tol': tol}, tags)
    for dv, yd in zip(dense[:2], Yd[:2]):
        Y = apply(dv[None, :] + np.eye(P))
        res['evals'] += P
        if np.abs(Y - (yd[None, :] + A.T)).max() > 1e-12 * gain * P:
            res.violation('superposition', dict(cfg, what='dense + impulse'), {'kind': 'value', 'maxdev': float(np.abs(Y - (yd[None, :] + A.T)).max())}, tags)
    res.regime('scales')
    # (3) slice independence: every (N, C), every (n, c), every impulse
    ncmax = item['ncmax']
    combos = [(1, 2), (2, 1), (2, 3), (3, 2)] if ncmax == 3 else [(N, C) for N in range(1, ncmax + 1) for C in range(1, ncmax + 1) if (N, C) != (1, 1)]
    step = 1 if P <= 32 else -(-P // 32)          # every impulse for P <= 32, else every step-th (all band kinds still hit)
    if step > 1:
        res['notes'].append('slice_check_uses_every_kth_impulse_for_P>32')
    for (N, C) in combos:
        if True:
            bad = None
            for n in range(N):
                for c in range(C):
                    for i in range((n * C + c) % step, P, step):
                        ins = []
                        off = 0
                        for s in in_shapes:
                            m = int(np.prod(s))
                            t = torch.zeros((N, C) + tuple(s))
                            if off <= i < off + m:
                                t[n, c].reshape(-1)[i - off] = 1.0
                            off += m
                            ins.append(t)
                        with torch.enable_grad():
                            Y = _cat(T(ins)).detach().numpy()                 # (N, C, M)
                        res['evals'] += 1
                        own = Y[n, c]
                        if np.abs(own - A[:, i]).max() > 1e-13 * gain:
                            bad = {'kind': 'own_slice', 'N': N, 'C': C, 'n': n, 'c': c, 'i': i, 'maxdev': float(np.abs(own - A[:, i]).max())}
                        Y[n, c] = 0
                        if np.any(Y != 0):
                            w = np.argwhere(Y != 0)[0]
                            bad = {'kind': 'leak', 'N': N, 'C': C, 'n': n, 'c': c, 'i': i, 'into_slice': [int(w[0]), int(w[1])], 'value': float(Y[tuple(w)])}
                        if bad:
                            break
                    if bad:
                        break
                if bad:
                    break
            if bad:
                res.violation('slice_independence', dict(cfg, N=N, C=C), bad, tags)
    res.regime('slices')
    # many channels (beyond any block size a grouped implementation might use): channel c carries impulse (7c mod P); every
    # output slice must be the corresponding column of the single-slice operator
    if item['dir'] in ('fwd', 'inv') and P <= 64:
        for Cbig in (65, 130):
            ins = []
            off = 0
            sel = [(7 * c) % P for c in range(Cbig)]
            for s_ in in_shapes:
                m = int(np.prod(s_))
                t = torch.zeros((1, Cbig) + tuple(s_))
                for c, i in enumerate(sel):
                    if off <= i < off + m:
                        t[0, c].reshape(-1)[i - off] = 1.0
                off += m
                ins.append(t)
            with torch.enable_grad():
                Y = _cat(T(ins)).detach().numpy()[0]          # (Cbig, M)
            res['evals'] += Cbig
            E = A[:, sel].T
            if Y.shape != E.shape or np.abs(Y - E).max() > 1e-13 * gain:
                cbad = int(np.abs(Y - E).max(axis=1).argmax()) if Y.shape == E.shape else -1
                res.violation('slice_independence', dict(cfg, N=1, C=Cbig), {'kind': 'many_channels', 'first_bad_channel': cbad}, tags)
        res.regime('many_channels')
    if item['fam'] == 'dtcwt' and item['dir'] == 'fwd' and item['J'] == 2 and item['shape'] == [4, 6]:
        res.sample({'config': cfg, 'inputs_per_slice': P, 'outputs_per_slice': int(M), 'pairs': len(pairs), 'coefficient_grid': COEFS})
    if item['fam'] == 'dwt1d' and item['dir'] == 'inv_bwd' and item['J'] == 3 and item['shape'] == [13] and item['wave'] == 'db2' and item['mode'] == 'zero':
        res.sample({'config': cfg, 'inputs_per_slice': P, 'outputs_per_slice': int(M), 'pairs': len(pairs)})
    return res
