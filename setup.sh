#!/bin/bash
# Offline sanity after a fresh restore: nothing is built, the checks import /repo's working tree directly.
set -e
cd "$(dirname "$0")"
mkdir -p evidence replays
PYTHONPATH=/repo:/verif PYTHONDONTWRITEBYTECODE=1 /venv/bin/python -W ignore - <<'PY'
import torch, pywt, dtcwt, numpy, networkx
import pytorch_wavelets, os
assert os.path.realpath(pytorch_wavelets.__file__).startswith('/repo/'), pytorch_wavelets.__file__
import mc.runner
print('setup ok: torch', torch.__version__, 'pywt', pywt.__version__, 'dtcwt', dtcwt.__version__)
PY
