import time, numpy as np, torch, pywt, warnings
warnings.simplefilter('ignore')
torch.set_default_dtype(torch.float64); torch.set_num_threads(1)
from pytorch_wavelets import DWTForward
for w in ['db2','db10','coif17']:
    for mode in ['zero','symmetric','periodization']:
        f=DWTForward(J=1,wave=w,mode=mode); X=np.eye(64).reshape(64,1,8,8); xt=torch.tensor(X)
        t0=time.time(); [f(xt) for _ in range(5)]; t1=time.time(); [pywt.wavedec2(X,w,mode=mode,level=1,axes=(-2,-1)) for _ in range(5)]; t2=time.time()
        print(w,mode,'lib ms',(t1-t0)*200,'pywt ms',(t2-t1)*200)
