import warnings, itertools, time
import numpy as np, torch
torch.set_default_dtype(torch.float64)
warnings.simplefilter('ignore')
from pytorch_wavelets import DTCWTForward, DTCWTInverse
import dtcwt
bad={}; n=0; t0=time.time()
biorts=['antonini','legall','near_sym_a','near_sym_b']; qshifts=['qshift_06','qshift_a','qshift_b','qshift_c','qshift_d']
for b,q in itertools.product(biorts,qshifts):
    ref=dtcwt.Transform2d(biort=b,qshift=q)
    for J in (1,2,3):
        f=DTCWTForward(biort=b,qshift=q,J=J); inv=DTCWTInverse(biort=b,qshift=q)
        for H,W in [(2,2),(2,3),(3,5),(4,4),(5,6),(6,6),(7,9),(8,8),(10,12),(11,13),(12,16),(14,18),(16,16),(17,20),(22,26)]:
            x=np.random.randn(H,W)
            try:
                p=ref.forward(x,nlevels=J)
            except Exception as e:
                bad.setdefault(('ref raise',str(e)[:40]),[]).append((b,q,J,H,W)); continue
            try:
                yl,yh=f(torch.tensor(x)[None,None])
            except Exception as e:
                bad.setdefault(('raise',str(e)[:60]),[]).append((b,q,J,H,W)); continue
            n+=1
            ok=True
            if tuple(yl.shape[2:])!=p.lowpass.shape: bad.setdefault('lowshape',[]).append((b,q,J,H,W,tuple(yl.shape[2:]),p.lowpass.shape)); continue
            if np.abs(yl[0,0].numpy()-p.lowpass).max()>1e-9: bad.setdefault('lowdiff',[]).append((b,q,J,H,W)); ok=False
            for j in range(J):
                hp=p.highpasses[j]  # (h,w,6) complex
                mine=yh[j][0,0]  # (6,h,w,2)
                if tuple(mine.shape[1:3])!=hp.shape[:2]: bad.setdefault('hishape',[]).append((b,q,J,H,W,j)); ok=False; break
                m=(mine[...,0]+1j*mine[...,1]).numpy().transpose(1,2,0)
                if np.abs(m-hp).max()>1e-9: bad.setdefault('hidiff',[]).append((b,q,J,H,W,j)); ok=False
            # PR
            xr=inv((yl,yh))[0,0].numpy()
            if xr.shape!=(H+H%2,W+W%2): bad.setdefault('invshape',[]).append((b,q,J,H,W,xr.shape))
            elif np.abs(xr[:H,:W]-x).max()>1e-9: bad.setdefault('notPR',[]).append((b,q,J,H,W,float(np.abs(xr[:H,:W]-x).max())))
            # C11: arbitrary pyramid vs ref inverse
            yl2=torch.randn_like(yl); yh2=[torch.randn_like(h) for h in yh]
            try:
                mine=inv((yl2,yh2))[0,0].numpy()
                pr=dtcwt.Pyramid(yl2[0,0].numpy(),tuple((h[0,0,...,0]+1j*h[0,0,...,1]).numpy().transpose(1,2,0) for h in yh2))
                r=ref.inverse(pr)
                if mine.shape!=r.shape: bad.setdefault('c11shape',[]).append((b,q,J,H,W,mine.shape,r.shape))
                elif np.abs(mine-r).max()>1e-9: bad.setdefault('c11diff',[]).append((b,q,J,H,W))
            except Exception as e:
                bad.setdefault(('c11raise',str(e)[:50]),[]).append((b,q,J,H,W))
print(n,time.time()-t0)
for k,v in bad.items(): print(k,len(v),v[:6])
