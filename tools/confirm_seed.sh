#!/bin/bash
# usage: tools/confirm_seed.sh <name> <patch> <demo.py> <meta.json> <detecting PIDs...>
# Confirms a seeded change in a scratch worktree of /repo HEAD (outside /repo and /verif): demo passes without, fails with the
# change, the repository's stable tests still pass with it; then stores it under /verif/seeded/<name>/ and removes the worktree.
name="$1"; patch="$2"; demo="$3"; meta="$4"; shift 4
wt=/tmp/seedwt/$name
rm -rf "$wt"; mkdir -p /tmp/seedwt
git -C /repo worktree add -q --detach "$wt" HEAD || exit 2
cleanup() { git -C /repo worktree remove --force "$wt" 2>/dev/null; rm -rf "$wt"; }
trap cleanup EXIT
export OMP_NUM_THREADS=2 PYTHONDONTWRITEBYTECODE=1
PYTHONPATH="$wt" /venv/bin/python -W ignore "$demo" "$wt" >/tmp/seedwt/$name.clean.log 2>&1; rc_clean=$?
git -C "$wt" apply "$patch" || { echo "$name: patch does not apply to HEAD"; exit 1; }
PYTHONPATH="$wt" /venv/bin/python -W ignore "$demo" "$wt" >/tmp/seedwt/$name.mut.log 2>&1; rc_mut=$?
/verif/tools/baseline.py "$wt" >/tmp/seedwt/$name.base.log 2>&1; rc_base=$?
echo "$name: demo clean rc=$rc_clean, demo with change rc=$rc_mut, baseline rc=$rc_base ($(tail -1 /tmp/seedwt/$name.base.log | cut -c1-80))"
if [ $rc_clean -eq 0 ] && [ $rc_mut -ne 0 ] && [ $rc_base -eq 0 ]; then
  d=/verif/seeded/$name; mkdir -p "$d"
  cp "$patch" "$d/patch.diff"; cp "$demo" "$d/demo.py"
  /venv/bin/python - "$meta" "$d/meta.json" "$name" "$*" <<'PY'
import json, sys
src, dst, name, det = sys.argv[1:5]
m = json.load(open(src))
out = {'name': name, 'property': m.get('property'), 'summary': m.get('summary'), 'needs': m.get('needs'), 'files': m.get('files'),
       'confirmed': {'scratch_worktree': '/tmp/seedwt/' + name + ' (git worktree of /repo HEAD, removed afterwards)',
                     'demo_on_unchanged_tree': 'exit 0', 'demo_with_change': 'exit 1',
                     'repository_tests_with_change': 'tools/baseline.py <worktree>: 241 stable tests pass, 0 missing',
                     'commands': ['PYTHONPATH=<wt> /venv/bin/python demo.py <wt>', 'git -C <wt> apply patch.diff', '/verif/tools/baseline.py <wt>',
                                  'tools/try_mutant.sh patch.diff <PID>  (git -C /repo apply; ./check <PID> quick; git -C /repo checkout -- .)']},
       'detected_by_quick_checks': det.split(), 'author': 'independent sub-agent given only the property text and a scratch worktree'}
json.dump(out, open(dst, 'w'), indent=1)
PY
  echo "$name: stored"
else
  echo "$name: NOT stored"
fi
