import warnings, logging
logging.disable(logging.WARNING); warnings.simplefilter('ignore')
import torch
from torch.utils._python_dispatch import TorchDispatchMode
from pytorch_wavelets import DWTForward, DTCWTForward, ScatLayer
class Log(TorchDispatchMode):
    def __init__(s): super().__init__(); s.ops=[]
    def __torch_dispatch__(s, func, types, args=(), kwargs=None):
        s.ops.append(str(func)); return func(*args, **(kwargs or {}))
for name,m,x in [('dwt',DWTForward(J=2,wave='db2',mode='symmetric'),torch.randn(1,2,9,8)),('dtcwt',DTCWTForward(J=2),torch.randn(1,2,10,12)),('scat',ScatLayer(),torch.randn(1,2,8,8))]:
    with Log() as l: m(x)
    from collections import Counter
    print(name,len(l.ops),dict(Counter(l.ops)))
