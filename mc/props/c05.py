"""C05 - DWT back-propagation is the exact adjoint, for every subset of arguments requiring grad."""
import itertools

import numpy as np

from .. import common, dwt, jac
from ..common import Res, cmp_mats

PID = 'C05'
LEVEL = 'exploration'
RULE = ('configuration lattice (wavelet pool x 5 modes x sizes incl. odd and shorter than the filter x J<=3, 1-D and 2-D) x '
        'complete cotangent basis: for DWT(1D)Forward the operator A is extracted from the forward pass on the impulse basis and '
        'the back-propagated matrix G from all unit cotangents (batched autograd) at base points {0, dense}; oracle G = A^T. For '
        'DWT(1D)Inverse: S on the complete coefficient basis, G_S from all unit cotangents, oracle G_S = S^T; then every non-empty '
        'subset of {yl, yh_1..yh_J} requiring grad: every marked argument receives its block of the full back-propagated matrix, '
        'unmarked ones do not disturb it. distinct_nontrivial = distinct non-zero back-propagated matrices')
ASSUMPTIONS = ['C07 (linearity): the complete cotangent basis decides the backward map',
               'the oracle is the transpose of the operator extracted from the implementation\'s own forward pass (never the flipped-filter inverse)']
CHUNK = 1
POOL_Q = ['haar', 'db2', 'db3', 'bior1.3', 'bior2.4', 'rbio3.1', 'sym4', 'coif2', 'db10']
POOL_T = POOL_Q + ['db4', 'db5', 'bior2.2', 'bior3.5', 'rbio2.4', 'sym6', 'coif1', 'bior6.8', 'dmey']


def pool(tier):
    return POOL_Q if tier == 'quick' else POOL_T


def bounds(tier):
    return {'wavelets': pool(tier), 'modes': dwt.MODES, '1d_sizes': '2..min(2L+4,%d)' % (26 if tier == 'quick' else 44),
            '2d_sizes': 'grid [2..%d]^2 for L<=8' % (8 if tier == 'quick' else 12), 'J': '1..3 (2-D: 1..2 quick)'}


def plan(tier):
    items = []
    for w in pool(tier):
        L = dwt.flen(w)
        for mode in dwt.MODES:
            hi = min(2 * L + 4, 26 if tier == 'quick' else 44)
            if L > 30:
                hi = L + 3
            for n in range(2, hi + 1):
                items.append({'dim': 1, 'wave': w, 'mode': mode, 'shape': [n], 'Js': [1, 2, 3]})
            if L <= 8:
                g = range(2, 9) if tier == 'quick' else range(2, 13)
                for h in g:
                    for ww in g:
                        items.append({'dim': 2, 'wave': w, 'mode': mode, 'shape': [h, ww],
                                      'Js': [1, 2] if tier == 'quick' else [1, 2, 3]})
    # two channels: the grouped convolutions stack one filter pair per channel (adjoint and grad subsets per channel)
    for w in ('db2', 'bior1.3'):
        for mode in dwt.MODES:
            for n in (5, 8):
                items.append({'dim': 1, 'wave': w, 'mode': mode, 'shape': [n], 'Js': [1, 2], 'C': 2})
            for hw in ((3, 4), (4, 4)):
                items.append({'dim': 2, 'wave': w, 'mode': mode, 'shape': list(hw), 'Js': [1, 2], 'C': 2})
    for (a, b) in PAIRS:
        for mode in dwt.MODES:
            for (h, ww) in ([(4, 4), (5, 6), (6, 5), (7, 7)] if tier == 'quick' else [(h_, w_) for h_ in range(3, 10) for w_ in range(3, 10)]):
                items.append({'dim': 2, 'wave': [a, b], 'mode': mode, 'shape': [h, ww], 'Js': [1, 2]})
    return items


def required_regimes(tier):
    need = {'per_axis_filters', 'channels:2', 'dim:1', 'dim:2', 'subset:high_only', 'subset:low_only', 'subset:finest_only', 'base:dense'}
    for m in dwt.MODES:
        for t in ('odd', 'even', 'lt_L', 'ge_L'):
            if (m, t) != ('reflect', 'lt_L'):
                need.add('%s:%s' % (m, t))
    return need


PAIRS = [('db2', 'db3'), ('db4', 'sym4'), ('coif1', 'db3'), ('bior1.3', 'haar')]


def _mods(dim, w, mode, J):
    from pytorch_wavelets import DWT1DForward, DWT1DInverse, DWTForward, DWTInverse
    if isinstance(w, (list, tuple)):            # 4-tuple: (column wavelet, row wavelet)
        import pywt
        a, b = pywt.Wavelet(w[0]), pywt.Wavelet(w[1])
        return (DWTForward(J=J, wave=(a.dec_lo, a.dec_hi, b.dec_lo, b.dec_hi), mode=mode),
                DWTInverse(wave=(a.rec_lo, a.rec_hi, b.rec_lo, b.rec_hi), mode=mode))
    if dim == 1:
        return DWT1DForward(J=J, wave=w, mode=mode), DWT1DInverse(wave=w, mode=mode)
    return DWTForward(J=J, wave=w, mode=mode), DWTInverse(wave=w, mode=mode)


def _dense(shape, k):
    n = int(np.prod(shape))
    v = np.cos(1.7 * np.arange(n) + 0.3 * k) * (1 + (np.arange(n) % 3))
    return v.reshape((1, 1) + tuple(shape))


def run(item):
    common.init_worker()
    import torch
    res = Res()
    dim, w, mode = item['dim'], item['wave'], item['mode']
    shape = tuple(item['shape'])
    pair = isinstance(w, (list, tuple))
    C = int(item.get('C', 1))
    L = max(dwt.flen(x) for x in w) if pair else dwt.flen(w)
    P = int(np.prod(shape)) * C
    for J in item['Js']:
        cfg = {'dim': dim, 'wave': w, 'mode': mode, 'shape': list(shape), 'J': J, 'C': C}
        tags = ['dim:%d' % dim] + (['per_axis_filters'] if pair else []) + (['channels:2'] if C == 2 else [])
        for ax, s in enumerate(shape):
            tags += dwt.regimes_1d(s, dwt.flen(w[ax]) if pair else L, mode, J)
        fwd, inv = _mods(dim, w, mode, J)

        def f(x):
            yl, yh = fwd(x)
            return [yl] + list(yh)

        x0 = torch.zeros((1, C) + shape)
        try:
            A, bshapes = jac.forward_matrix(f, [x0])
        except Exception:
            res['ood'] += 1         # forward does not return (reflect on a short level)
            continue
        res.state(dim, w, mode, shape, J)
        res['impl_calls'] += 1
        res['evals'] += P
        res.regime(*tags)
        # ---- forward transform: G = A^T at two base points
        for bi, base in enumerate([x0, torch.as_tensor(_dense((C,) + shape, 1)).reshape((1, C) + shape)]):
            try:
                G, M = jac.vjp_matrices(f, [base], [True])
            except Exception as e:
                res.violation('fwd_backward_is_adjoint', dict(cfg, base=bi), {'kind': 'raise', 'exc': repr(e)[:200]}, tags)
                continue
            res['impl_calls'] += 1
            res['evals'] += M
            if bi:
                res.regime('base:dense')
            if G[0] is None:
                res.violation('fwd_backward_is_adjoint', dict(cfg, base=bi), {'kind': 'no_gradient'}, tags)
                continue
            d = cmp_mats(G[0], A.T)
            if d is not None:
                res.violation('fwd_backward_is_adjoint', dict(cfg, base=bi), d, tags, signature=_sig_fwd(dim, w, mode, J, shape, G[0], C))
            res.op(G[0])
        # ---- inverse transform on forward-compatible pyramids
        base = [torch.zeros((1,) + s) for s in bshapes]
        nb = len(base)

        def g(yl, *yh):
            return [inv((yl, list(yh)))]

        try:
            S, oshape = jac.forward_matrix(g, base)
        except Exception as e:
            res.violation('inv_backward_is_adjoint', cfg, {'kind': 'raise_forward', 'exc': repr(e)[:200]}, tags)
            continue
        res['evals'] += S.shape[1]
        try:
            GS, M = jac.vjp_matrices(g, base, [True] * nb)
        except Exception as e:
            res.violation('inv_backward_is_adjoint', cfg, {'kind': 'raise', 'exc': repr(e)[:200]}, tags)
            continue
        res['impl_calls'] += 2
        res['evals'] += M
        if any(x is None for x in GS):
            res.violation('inv_backward_is_adjoint', cfg, {'kind': 'no_gradient', 'args': [i for i, x in enumerate(GS) if x is None]}, tags)
            continue
        Gfull = np.concatenate(GS, axis=0)
        d = cmp_mats(Gfull, S.T)
        if d is not None:
            res.violation('inv_backward_is_adjoint', cfg, d, tags, signature=_sig_inv(dim, w, mode, J, bshapes, oshape[0], Gfull, C))
        res.op(Gfull)
        # ---- every non-empty proper subset of arguments requiring grad
        if P <= 64:
            for r in range(1, nb):
                for sub in itertools.combinations(range(nb), r):
                    req = [i in sub for i in range(nb)]
                    scfg = dict(cfg, requires_grad=['yl' if i == 0 else 'yh%d' % i for i in sub])
                    stags = list(tags)
                    if 0 not in sub:
                        stags.append('subset:high_only')
                    if sub == (0,):
                        stags.append('subset:low_only')
                    if sub == (1,):
                        stags.append('subset:finest_only')
                    try:
                        Gs, _ = jac.vjp_matrices(g, base, req)
                    except Exception as e:
                        res.violation('grad_subset', scfg, {'kind': 'raise', 'exc': repr(e)[:200]}, stags)
                        continue
                    res['impl_calls'] += 1
                    res['evals'] += M
                    res.regime(*[t for t in stags if t.startswith('subset:')])
                    for i in sub:
                        if Gs[i] is None:
                            res.violation('grad_subset', scfg, {'kind': 'no_gradient', 'arg': i}, stags)
                            break
                        dd = cmp_mats(Gs[i], GS[i])
                        if dd is not None:
                            dd['arg'] = i
                            res.violation('grad_subset', scfg, dd, stags)
                            break
        if J == 2 and shape in ((7,), (5, 4)) and mode == 'zero':
            res.sample({'config': cfg, 'forward_operator': list(A.shape), 'cotangents_forward': int(A.shape[0]),
                        'cotangents_inverse': int(M), 'grad_subsets': 2 ** nb - 2})
    return res


# ---- closed forms of known finding O2 (the padding's adjoint is missing from the hand-written backward) -------------------

def _sig_fwd(dim, w, mode, J, shape, G, C=1):
    """O2a: in symmetric/reflect/periodic the backward of the forward DWT is exactly the transpose of the *zero-padded*
    analysis operator of the same configuration."""
    import torch
    if mode not in ('symmetric', 'reflect', 'periodic'):
        return None
    fz, _ = _mods(dim, w, 'zero', J)

    def f(x):
        yl, yh = fz(x)
        return [yl] + list(yh)
    Az, _ = jac.forward_matrix(f, [torch.zeros((1, C) + tuple(shape))])
    if Az.T.shape == G.shape and cmp_mats(G, Az.T) is None:
        return 'backward_equals_transpose_of_zero_padded_operator'
    return None


def _sig_inv(dim, w, mode, J, bshapes, oshape, G, C=1):
    """O2b: in symmetric/reflect/periodic the backward of the inverse DWT applies, level by level, the *padded* analysis bank
    with the synthesis filters (the true adjoint pads with zeros); the un-pad between levels back-propagates as zero
    extension. Composed here from single-level calls of the real forward module."""
    import torch
    import pywt
    if mode not in ('symmetric', 'reflect', 'periodic'):
        return None
    from pytorch_wavelets import DWT1DForward, DWT1DInverse, DWTForward, DWTInverse
    if isinstance(w, (list, tuple)):
        wa, wb = pywt.Wavelet(w[0]), pywt.Wavelet(w[1])
        filt = (wa.rec_lo[::-1], wa.rec_hi[::-1], wb.rec_lo[::-1], wb.rec_hi[::-1])
        I1 = _mods(dim, w, mode, 1)[1]
    else:
        wv = pywt.Wavelet(w)
        filt = (wv.rec_lo[::-1], wv.rec_hi[::-1])
        I1 = (DWT1DInverse if dim == 1 else DWTInverse)(wave=w, mode=mode)
    F1 = (DWT1DForward if dim == 1 else DWTForward)(J=1, wave=filt, mode=mode)
    M = int(np.prod(oshape))
    d = torch.as_tensor(np.eye(M).reshape((M,) + tuple(oshape)))
    hs = []
    try:
        for j in range(J):
            lo, hi = F1(d)
            hs.append(hi[0])
            if j + 1 < J:
                # shape of the (un-cropped) lowpass produced by the next coarser synthesis level
                hsh = bshapes[1 + j + 1]
                zl = torch.zeros((1, C) + tuple(hsh[-dim:]))
                zh = torch.zeros((1,) + tuple(hsh))
                tgt = I1((zl, [zh])).shape[2:]
                pad = []
                for a in range(dim - 1, -1, -1):
                    pad += [0, int(tgt[a] - lo.shape[2 + a])]
                if any(p < 0 for p in pad):
                    return None
                lo = torch.nn.functional.pad(lo, pad)
            d = lo
    except Exception:
        return None
    blocks = [d.reshape(M, -1).numpy().T] + [h.reshape(M, -1).numpy().T for h in hs]
    CF = np.concatenate(blocks, axis=0)
    if CF.shape == G.shape and cmp_mats(G, CF) is None:
        return 'backward_equals_padded_analysis_with_synthesis_filters'
    return None
