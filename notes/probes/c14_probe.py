import warnings
import numpy as np, torch, pywt
torch.set_default_dtype(torch.float64)
from pytorch_wavelets import DWTForward, DWTInverse
from pytorch_wavelets.dwt.transform2d import SWTForward
import pytorch_wavelets.dwt.lowlevel as ll
warnings.simplefilter('ignore')
wc,wr=pywt.Wavelet('db2'),pywt.Wavelet('bior1.3')
x=torch.randn(1,1,10,12)
for mode in ['zero','symmetric','periodization']:
    f=DWTForward(J=1,wave=(wc.dec_lo,wc.dec_hi,wr.dec_lo,wr.dec_hi),mode=mode)
    yl,yh=f(x)
    # pywt: axes=(-2,-1) wavelet per axis: (axis0=vertical -> col wavelet, axis1=horizontal -> row)
    for name,(wa,wb) in {'col->vertical(expected)':(wc,wr),'col->horizontal(swapped)':(wr,wc)}.items():
        cA,(cH,cV,cD)=pywt.dwt2(x.numpy(),(wa,wb),mode=mode,axes=(-2,-1))
        ok = cA.shape==tuple(yl.shape) and np.abs(cA-yl.numpy()).max()<1e-9
        print(mode,name,'shape',cA.shape,tuple(yl.shape),'match' if ok else 'no')
    y=ll.afb2d(x,(wc.dec_lo,wc.dec_hi,wr.dec_lo,wr.dec_hi),mode=mode)
    print('   functional afb2d ll shape',y.shape, 'equal module:', y.shape[-2:]==yl.shape[-2:] and (y[:,0]-yl[:,0]).abs().max().item()<1e-9)
print('--- SWT')
for mode in ['periodization','periodic']:
    try:
        s=SWTForward(J=2,wave='db2',mode=mode)
        out=s(torch.randn(1,2,8,8))
        print(mode,[o.shape for o in out])
    except Exception as e: print(mode,'raise',type(e).__name__,str(e)[:100])
try:
    s=SWTForward(J=1,wave='db2',mode='periodic'); xx=torch.randn(1,2,8,8); out=s(xx)
    print('J=1 periodic',[o.shape for o in out])
    ref=pywt.swt2(xx.numpy(),'db2',level=1,axes=(-2,-1))
    cA,(cH,cV,cD)=ref[0]
    o=out[0].reshape(1,2,4,8,8)
    for k,r in enumerate([cA,cH,cV,cD]): print(k,np.abs(o[:,:,k].numpy()-r).max())
except Exception as e: print('raise',type(e).__name__,str(e)[:100])
