#!/venv/bin/python
"""Regenerate /verif/MANIFEST.json from the table below (only properties whose check module exists are
claimed; the others are listed under not_applicable with the reason)."""
import json
import os

V = os.path.dirname(os.path.dirname(os.path.abspath(__file__)))

MC = 'model_checking'
EX = 'exploration'
T = {
 'C01': (MC, 'explicit-state exploration of the DWT shape-transition graph on the real modules; complete impulse basis per state; operator compared with PyWavelets on every path to closure+1',
         'Every (wavelet, mode, start size) in the stated lattice is a start state; every J from 1 to closure+1 is executed; the operator extracted from the implementation on the complete impulse basis equals the operator extracted from pywt.wavedec/wavedec2. Exhaustive within the lattice; covers all inputs of the explored shapes given linearity (C07).',
         'Trusts PyWavelets as reference, float64 arithmetic, linearity (C07, checked separately); sizes above the lattice and levels beyond closure+1 rest on uniformity of the level loop.', '3 C01'),
 'C02': (MC, 'same shape graph; product S*A extracted column by column on the complete impulse basis and compared with the identity on the original extent',
         'Perfect reconstruction as an operator identity on every explored path (all J to closure+1), tolerance tied to the reference\'s own PR error.',
         'As C01; PR error of the published filter taps is absorbed by comparing with PyWavelets\' own reconstruction error.', '3 C02'),
 'C03': (MC, 'explicit-state exploration of the DTCWT shape graph (edge replication, pad-to-4, halving) on the real module; complete impulse basis; compared with the NumPy dtcwt reference per level',
         'All biort x qshift tables, all sizes of the lattice, all J to closure+1; operator equality with the reference transform on every path.',
         'Trusts the dtcwt 0.14 NumPy package as reference and linearity (C07).', '3 C03'),
 'C04': (MC, 'same DTCWT graph; inverse(forward(e_i)) on the complete impulse basis compared with e_i on the original extent',
         'Operator identity S*A = I on [:H,:W] for every explored path.', 'As C03.', '3 C04'),
 'C05': (EX, 'exhaustive enumeration: configurations x all unit cotangents x base points x all grad subsets; Jacobian-transpose extracted by autograd compared with the transpose of the operator extracted from the forward pass',
         'Complete cotangent basis per configuration decides the (linear) backward map for that configuration; grad-subset lattice is enumerated completely.',
         'Oracle is the forward pass of the implementation itself (transposed), never the library\'s flipped-filter inverse; relies on C07.', '3 C05'),
 'C06': (EX, 'exhaustive enumeration: DTCWT configurations x layouts x skip/include masks x grad subsets x all unit cotangents; autograd Jacobian-transpose vs transpose of extracted forward operator',
         'As C05 for the DTCWT.', 'As C05.', '3 C06'),
 'C07': (EX, 'exhaustive enumeration of superposition probes (all impulse pairs x coefficient grid, scale sweep, zero) and of every (N,C,n,c) slice placement of every impulse; full operator compared with kron(I, A)',
         'Linearity and slice independence decided on a finite generating alphabet for every transform family.',
         'A data-dependent branch that triggers only outside the alphabet would escape; stated in DESIGN 7.', '3 C07'),
 'C08': (EX, 'exhaustive enumeration of the layer configuration lattice x deviation-bounded sparse images (<=k non-zero pixels) + dense table; compared with a NumPy composition over the reference DTCWT',
         'Bounded evidence for a non-linear function: all images within the deviation bound on the explored sizes.', 'Trusts the reference DTCWT; not all of R^n.', '3 C08'),
 'C09': (EX, 'exhaustive enumeration: configuration lattice x base points x all unit cotangents; back-propagated Jacobian-transpose vs 4th-order central differences of the layer\'s own forward',
         'Complete cotangent basis at every enumerated base point (incl. zero and constant images).', 'Finite-difference oracle, tolerance 1e-6*scale; bounded set of base points.', '3 C09'),
 'C10': (MC, 'synthesis edges/paths of the DWT shape graph: complete basis over every coefficient of every band of forward-compatible pyramids; compared with pywt.waverec/waverec2; all None subsets',
         'Synthesis operator on arbitrary pyramids (not only the range of analysis) equals the reference on every explored path; every subset of absent levels.',
         'As C01.', '3 C10'),
 'C11': (MC, 'synthesis over the DTCWT shape graph: complete coefficient basis of forward-compatible pyramids vs dtcwt.Transform2d.inverse; all absent-level subsets x placeholder kinds',
         'As C10 for the DTCWT.', 'As C03.', '3 C11'),
 'C12': (EX, 'complete enumeration of all 120 signed (o_dim, ri_dim) pairs x skip masks x include masks x J on the impulse basis; compared with an axis-moving reference model',
         'Finite option space enumerated completely; equality of operators.', 'Relies on C07.', '3 C12'),
 'C13': (MC, 'exploration of the (size-preserving) SWT level graph: complete impulse basis, operator vs pywt.swt2 and commutation with every circular shift',
         'All wavelets x J x sizes of the lattice.', 'Trusts pywt.swt2.', '3 C13'),
 'C14': (MC, 'all ordered pairs of distinct wavelets from a pool x modes x sizes x J on the impulse / coefficient basis; compared with pywt per-axis wavelets and with the functional afb2d/sfb2d',
         'Axis assignment decided for every ordered pair (different lengths and equal lengths).', 'As C01.', '3 C14'),
 'C15': (MC, 'explicit-state BFS over operation histories with hidden-state hashing + stateless preemption-bounded schedule enumeration of two threads under a cooperative scheduler; bitwise comparison with a pristine-interpreter reference',
         'All histories to the stated depth over a colliding pool; all 2-thread schedules to the stated preemption bound.', 'Line-granularity scheduling; interleavings inside torch kernels not modelled.', '3 C15'),
 'C16': (EX, 'exhaustive enumeration: module types x dtypes x conversions x memory layouts x impulse/extremal/mixed-range inputs; compared with the float64 result under the stated eps32 bound',
         'Finite lattice x structured input alphabet incl. the worst-case sign vectors of the extracted operator.', 'Not an error analysis; bounded alphabet.', '3 C16'),
 'C17': (MC, 'shape-graph exploration restricted to admissible sizes: extracted operators checked for A^T A = A A^T = I, S = A^T, autograd G = S',
         'All orthogonal wavelets x J x admissible sizes of the lattice.', 'Tolerance includes the measured orthonormality defect of the published taps.', '3 C17'),
 'C18': (EX, 'complete enumeration of every shipped table, every array, every identity and every load order of 3 names',
         'Finite set checked exhaustively.', 'Trusts the reference package tables.', '3 C18'),
 'C19': (MC, 'exploration over wavelets/pairs x modes x size grid: analysis and synthesis operators of the non-separable bank vs the separable functional API on complete bases',
         'All configurations of the lattice; complete bases.', 'Relies on C07.', '3 C19'),
}


def main():
    checks = []
    na = []
    for pid in sorted(T):
        level, tech, text, note, ref = T[pid]
        if os.path.exists(os.path.join(V, 'mc', 'props', pid.lower() + '.py')):
            checks.append({
                'property_id': pid,
                'quick_cmd': './check %s quick' % pid,
                'thorough_cmd': './check %s thorough' % pid,
                'evidence_file': 'evidence/%s.json' % pid,
                'replay_cmd_template': './check --replay {path}',
                'engine': 'mc',
                'level_claimed': {'category': level, 'text': text, 'design_ref': 'DESIGN.md section ' + ref},
                'level_note': note,
                'technique': tech,
            })
        else:
            na.append({'property_id': pid, 'reason': 'check not built yet at this commit (planned, see DESIGN.md section %s); not claimed until it runs' % ref})
    m = {
        'version': 1,
        'setup_cmd': './setup.sh',
        'hooks': {'guard': 'PYTORCH_WAVELETS_VERIF', 'enable': 'no source hooks are used: the checks import /repo\'s working tree directly (PYTHONPATH=/repo) and observe through the public API, introspection and sys.settrace',
                  'baseline_off_cmd': 'tools/baseline.py /repo', 'source_commits': [], 'add_only': True},
        'engines': [{'name': 'mc', 'path': 'mc/', 'serves_properties': [c['property_id'] for c in checks],
                     'kind_free_text': 'hand-written explicit-state / exhaustive explorers in Python running the real library (shape-graph exploration with operator oracle, configuration-lattice enumeration, history BFS and preemption-bounded scheduler)'}],
        'checks': checks,
        'not_applicable': na,
        'notes': 'Exit codes: 0 held (KNOWN-FINDING lines allowed), 1 violation, 2 the check itself is broken (vacuity guard / harness crash). See DESIGN.md.',
    }
    with open(os.path.join(V, 'MANIFEST.json'), 'w') as fh:
        json.dump(m, fh, indent=1)
    print('MANIFEST.json: %d checks, %d not_applicable' % (len(checks), len(na)))


if __name__ == '__main__':
    main()
