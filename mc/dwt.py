"""DWT lattices, the shape-transition map, and adapters around the implementation and PyWavelets."""
import numpy as np
import pywt

MODES = ['zero', 'symmetric', 'reflect', 'periodic', 'periodization']


def all_wavelets():
    return pywt.wavelist(kind='discrete')


def flen(w):
    return pywt.Wavelet(w).dec_len


_REP = None


def rep_wavelets():
    """Representative set R (DESIGN 2.3): one wavelet per distinct length <= 20 from each family,
    haar, dmey, the longest, and every biorthogonal with unequal true support and L <= 12."""
    global _REP
    if _REP is not None:
        return _REP
    out = ['haar', 'dmey', 'coif17']
    for fam in ('db', 'sym', 'coif', 'bior', 'rbio'):
        seen = set()
        for w in pywt.wavelist(fam):
            L = flen(w)
            if L <= 20 and L not in seen:
                seen.add(L)
                out.append(w)
    for fam in ('bior', 'rbio'):
        for w in pywt.wavelist(fam):
            if flen(w) <= 12 and w not in out:
                out.append(w)
    _REP = sorted(set(out), key=lambda w: (flen(w), w))
    return _REP


def wavelets(tier):
    return rep_wavelets() if tier == 'quick' else sorted(all_wavelets(), key=lambda w: (flen(w), w))


def next_len(n, L, mode):
    return pywt.dwt_coeff_len(n, L, mode=mode)


def closure_depth(n, L, mode, cap):
    """Number of levels until the shape map reaches its fixed point (self-loop), capped."""
    d = 0
    while d < cap:
        m = next_len(n, L, mode)
        d += 1
        if m == n:
            break
        n = m
    return d


def level_lengths(n, L, mode, J):
    out = [n]
    for _ in range(J):
        n = next_len(n, L, mode)
        out.append(n)
    return out


def sizes_1d(L, tier):
    hi = min(2 * L + 4, 44) if tier == 'quick' else 2 * L + 4
    out = list(range(2, hi + 1))
    # a few states far beyond the regime boundaries (complete basis as well): code that switches behaviour with size
    big = [64, 101, 128] if tier == 'quick' else [64, 101, 128, 255, 256, 300]
    if L <= 12:
        out += [n for n in big if n > hi]
    return out


def sizes_2d(L, tier):
    """Full grid for short filters, regime-boundary cross for long ones (DESIGN 2.3)."""
    if tier == 'quick':
        if L <= 8:
            return [(h, w) for h in range(2, 9) for w in range(2, 9)] + ([(32, 32), (33, 20)] if L in (4, 6) else [])
        hs = sorted(set(list(range(2, 6)) + [x for x in range(L - 2, L + 4) if 2 <= x <= 24]))
        ws = [2, 3]
    else:
        if L <= 8:
            return [(h, w) for h in range(2, 15) for w in range(2, 15)] + ([(32, 32), (33, 20), (20, 33)] if L in (4, 6) else [])
        if L <= 12:
            hs = list(range(2, 2 * L + 5))
            ws = [2, 3]
        elif L <= 20:
            hs = sorted(set(list(range(2, 6)) + list(range(L - 2, L + 4)) + list(range(2 * L - 1, 2 * L + 5))))
            ws = [2, 3]
        elif L <= 40:
            hs = [2, 3, L - 1, L, L + 1]
            ws = [2, 3]
        else:
            # very long filters: one dense 2-D pass costs seconds; every length is covered through the 1-D transform
            return [(2, 2), (3, 3), (L, 2), (2, L), (L + 1, 3)]
    cross = [(h, w) for h in hs for w in ws] + [(w, h) for h in hs for w in ws]
    return sorted(set(cross))


def regimes_1d(n, L, mode, J, axis=''):
    """Regime tags decided from the configuration only (never from internals)."""
    tags = []
    for j, m in enumerate(level_lengths(n, L, mode, J)[:-1]):
        tags.append('%s%s:%s' % (axis, mode, 'odd' if m % 2 else 'even'))
        me = m + (m % 2)
        if m < L:
            tags.append('%s%s:lt_L' % (axis, mode))
        else:
            tags.append('%s%s:ge_L' % (axis, mode))
        if mode == 'periodization' and me < L:
            tags.append('level_even_len_lt_L')
        if j >= 1:
            tags.append('%s%s:deep' % (axis, mode))
    return tags


# ---- implementation adapters (float64 modules built inside the worker) -----------------------------------

def impl_fwd1d(wave, mode, J, X):
    import torch
    from pytorch_wavelets import DWT1DForward
    yl, yh = DWT1DForward(J=J, wave=wave, mode=mode)(torch.as_tensor(X))
    return [yl.numpy()] + [h.numpy() for h in yh]          # lowpass, finest ... coarsest


def ref_fwd1d(wave, mode, J, X):
    co = pywt.wavedec(X, wave, mode=mode, level=J, axis=-1)
    return [co[0]] + [co[J - j] for j in range(J)]          # lowpass, finest ... coarsest


def impl_inv1d(wave, mode, yl, yh):
    import torch
    from pytorch_wavelets import DWT1DInverse
    y = DWT1DInverse(wave=wave, mode=mode)((torch.as_tensor(yl),
                                            type(yh)(None if h is None else torch.as_tensor(h) for h in yh)))
    return y.numpy()


def ref_inv1d(wave, mode, yl, yh):
    J = len(yh)
    co = [yl] + [yh[J - 1 - j] for j in range(J)]
    return pywt.waverec(co, wave, mode=mode, axis=-1)


def impl_fwd2d(wave, mode, J, X):
    import torch
    from pytorch_wavelets import DWTForward
    yl, yh = DWTForward(J=J, wave=wave, mode=mode)(torch.as_tensor(X))
    out = [yl.numpy()]
    for h in yh:
        h = h.numpy()
        out += [h[:, :, 0], h[:, :, 1], h[:, :, 2]]
    return out                                              # ll, then (LH, HL, HH) finest ... coarsest


def ref_fwd2d(wave, mode, J, X):
    co = pywt.wavedec2(X, wave, mode=mode, level=J, axes=(-2, -1))
    out = [co[0]]
    for j in range(J):
        cH, cV, cD = co[J - j]
        out += [cH, cV, cD]
    return out


def impl_inv2d(wave, mode, yl, yh):
    """yh: list (finest first) of arrays (P,1,3,h,w) or None."""
    import torch
    from pytorch_wavelets import DWTInverse
    y = DWTInverse(wave=wave, mode=mode)((torch.as_tensor(yl),
                                          type(yh)(None if h is None else torch.as_tensor(h) for h in yh)))
    return y.numpy()


def ref_inv2d(wave, mode, yl, yh):
    """yl (P,h,w); yh list (finest first) of (P,3,h,w)."""
    J = len(yh)
    co = [yl]
    for j in range(J):
        h = yh[J - 1 - j]
        co.append((h[:, 0], h[:, 1], h[:, 2]))
    return pywt.waverec2(co, wave, mode=mode, axes=(-2, -1))


def band_basis(shapes, r0=0, r1=None):
    """Rows r0:r1 of the complete basis over the concatenation of bands with the given per-item shapes.
    Returns a list of arrays (r1-r0, 1) + shape, one per band."""
    sizes = [int(np.prod(sh)) for sh in shapes]
    P = int(sum(sizes))
    r1 = P if r1 is None else min(r1, P)
    out = []
    off = 0
    for sh, m in zip(shapes, sizes):
        b = np.zeros((r1 - r0, m))
        lo, hi = max(r0, off), min(r1, off + m)
        if hi > lo:
            rows = np.arange(lo, hi)
            b[rows - r0, rows - off] = 1.0
        off += m
        out.append(b.reshape((r1 - r0, 1) + tuple(sh)))
    return out


def pyramid_size_1d(shapes):
    return int(sum(shapes))


def pyramid_basis_1d(shapes, r0=0, r1=None):
    """shapes: [n_low, n_h1(finest) ... n_hJ] -> (yl, [yh...]) rows r0:r1 of the complete coefficient basis."""
    b = band_basis([(n,) for n in shapes], r0, r1)
    return b[0], b[1:]


def pyramid_size_2d(lshape, hshapes):
    return int(lshape[0] * lshape[1] + sum(3 * h * w for h, w in hshapes))


def pyramid_basis_2d(lshape, hshapes, r0=0, r1=None):
    """lshape (h,w); hshapes list (finest first) of (h,w) -> yl (p,1,h,w), yh list of (p,1,3,h,w)."""
    b = band_basis([tuple(lshape)] + [(3, h, w) for h, w in hshapes], r0, r1)
    return b[0], b[1:]
