"""C01 - DWT analysis equals PyWavelets (1-D and 2-D): shape-graph exploration with an operator oracle."""
import numpy as np

from .. import common, dwt
from ..common import Res, cmp_mats, flat

PID = 'C01'
LEVEL = 'model_checking'
RULE = ('state = (dim, wavelet, mode, lowpass shape); transition = one analysis level executed by the real '
        'module; for every start state the complete impulse basis is pushed through the J-level module for '
        'J = 1..closure+1 and the extracted operator is compared entrywise with the operator extracted from '
        'pywt.wavedec/wavedec2; distinct_nontrivial = distinct non-zero extracted operators (hash of the matrix)')
ASSUMPTIONS = ['C07 (linearity, per-slice action): the impulse basis decides all inputs of a shape',
               'PyWavelets is the reference model and is linear',
               'level loops are uniform in the level index (DESIGN 2.1), so levels beyond closure+1 repeat the self-loop edge']
CHUNK = 4


def bounds(tier):
    return {'wavelets': len(dwt.wavelets(tier)), 'modes': dwt.MODES,
            '1d_sizes': '2..min(2L+4,44)' if tier == 'quick' else '2..2L+4',
            '2d_sizes': 'grid [2..8]^2 (L<=8) / regime cross' if tier == 'quick' else 'grid [2..14]^2 (L<=8), full cross (8<L<=12), regime-boundary cross (L>12)',
            'J': '1..closure+1, cap %d' % jcap(tier)}


def jcap(tier):
    return 6 if tier == 'quick' else 12


def plan(tier):
    items = []
    for w in dwt.wavelets(tier):
        L = dwt.flen(w)
        for mode in dwt.MODES:
            ns = dwt.sizes_1d(L, tier)
            for i in range(0, len(ns), 8):
                items.append({'dim': 1, 'wave': w, 'mode': mode, 'ns': ns[i:i + 8], 'jcap': jcap(tier)})
            for (h, ww) in dwt.sizes_2d(L, tier):
                items.append({'dim': 2, 'wave': w, 'mode': mode, 'h': h, 'w': ww,
                              'jcap': min(jcap(tier), 8) if L <= 12 else (min(jcap(tier), 4) if L <= 20 else 2)})
    return items


def required_regimes(tier):
    need = set()
    for m in dwt.MODES:
        for t in ('odd', 'even', 'lt_L', 'ge_L', 'deep'):
            need.add('%s:%s' % (m, t))
            need.add('r%s:%s' % (m, t))
            need.add('c%s:%s' % (m, t))
    need.add('2d:h!=w')
    need.add('reflect:allowed_raise')
    need |= {'variant:N=1', 'variant:C=2', 'variant:no_grad', 'variant:positional'}
    # reflect with a level shorter than the filter always raises in the implementation (allowed by C01)
    return need - {'reflect:lt_L', 'rreflect:lt_L', 'creflect:lt_L'}


def allowed_raise(mode, lens, L):
    """C01: reflect mode may raise when a level is shorter than the filter."""
    return mode == 'reflect' and any(n < L for n in lens)


def run(item):
    common.init_worker()
    res = Res()
    if item['dim'] == 1:
        for n in item['ns']:
            _run1(res, item['wave'], item['mode'], n, item['jcap'])
    else:
        _run2(res, item)
    return res


def _compare(res, cfg, impl, ref, tags):
    Ai, si = flat(impl)
    Ar, sr = flat(ref)
    res['evals'] += Ai.shape[1]
    if si != sr:
        res.violation('analysis_vs_pywt', cfg, {'kind': 'band_shapes', 'observed': si, 'expected': sr}, tags)
        return
    d = cmp_mats(Ai, Ar)
    if d is not None:
        res.violation('analysis_vs_pywt', cfg, d, tags)
    res.op(Ai)


def _shape_variants(res, cfg, tags, call, X, impl):
    """The same transform called with a batch of one (N=1) and with two channels (channel 1 = the basis in reverse order)
    must reproduce the rows of the batched single-channel extraction."""
    try:
        one = call(X[:1])
        two = call(np.concatenate([X, X[::-1]], axis=1))
    except Exception as e:
        res.violation('analysis_vs_pywt', dict(cfg, variant='N=1 / C=2 call'), {'kind': 'raise', 'exc': repr(e)[:200]}, tags)
        return
    res['impl_calls'] += 2
    res.regime('variant:N=1', 'variant:C=2')
    import torch as _t
    with _t.no_grad():
        ng = call(X)
    for a_, b_ in zip(ng, impl):
        if a_.shape != b_.shape or not np.array_equal(a_, b_):
            res.violation('analysis_vs_pywt', dict(cfg, variant='no_grad'), {'kind': 'value_or_shape', 'what': 'result under no_grad differs'}, tags)
            return
    res.regime('variant:no_grad')
    if 'mode' in cfg and 'wave' in cfg:
        # the documented positional order (J, wave, mode) means the same as the keywords
        import torch as _t2
        from pytorch_wavelets import DWT1DForward as _F1, DWTForward as _F2
        try:
            m_ = (_F1 if cfg['dim'] == 1 else _F2)(cfg['J'], cfg['wave'], cfg['mode'])
            yl_, yh_ = m_(_t2.as_tensor(X))
            pos = [yl_.numpy()] + ([h_.numpy() for h_ in yh_] if cfg['dim'] == 1 else [h_.numpy()[:, :, k] for h_ in yh_ for k in range(3)])
            res.regime('variant:positional')
            if len(pos) != len(impl) or any(a_.shape != b_.shape or not np.array_equal(a_, b_) for a_, b_ in zip(pos, impl)):
                res.violation('analysis_vs_pywt', dict(cfg, variant='positional arguments'), {'kind': 'value_or_shape', 'what': 'DWT(1D)Forward(J, wave, mode) differs from the keyword construction'}, tags)
        except Exception as e:
            res.violation('analysis_vs_pywt', dict(cfg, variant='positional arguments'), {'kind': 'raise', 'exc': repr(e)[:200]}, tags)
    for b1, b2, b in zip(one, two, impl):
        if b1.shape != b[:1].shape or common.maxabs(b1 - b[:1]) > common.TOL:
            res.violation('analysis_vs_pywt', dict(cfg, variant='N=1'), {'kind': 'value_or_shape', 'observed_shape': list(b1.shape), 'expected_shape': list(b[:1].shape)}, tags)
            return
        exp = np.concatenate([b, b[::-1]], axis=1)
        if b2.shape != exp.shape or common.maxabs(b2 - exp) > common.TOL * max(1.0, common.maxabs(exp)):
            res.violation('analysis_vs_pywt', dict(cfg, variant='C=2'), {'kind': 'value_or_shape', 'observed_shape': list(b2.shape), 'expected_shape': list(exp.shape)}, tags)
            return


def _run1(res, w, mode, n, cap):
    L = dwt.flen(w)
    X = common.eye_batch((n,))
    Jmax = min(cap, dwt.closure_depth(n, L, mode, cap) + 1)
    for J in range(1, Jmax + 1):
        cfg = {'dim': 1, 'wave': w, 'mode': mode, 'n': n, 'J': J}
        lens = dwt.level_lengths(n, L, mode, J)
        tags = dwt.regimes_1d(n, L, mode, J)
        for m in lens[:-1]:
            res.state(1, w, mode, m)
        try:
            ref = dwt.ref_fwd1d(w, mode, J, X[:, 0])
            ref = [r[:, None] for r in ref]
        except Exception:
            res['ood'] += 1
            continue
        try:
            impl = dwt.impl_fwd1d(w, mode, J, X)
        except Exception as e:
            res['impl_calls'] += 1
            if allowed_raise(mode, lens[:-1], L):
                res.regime('reflect:allowed_raise')
                res['ood'] += 1
            else:
                res.violation('analysis_vs_pywt', cfg, {'kind': 'raise', 'exc': repr(e)[:200]}, tags)
            continue
        res['impl_calls'] += 1
        res['transitions'] += J
        res.regime(*tags)
        _compare(res, cfg, impl, ref, tags)
        _shape_variants(res, cfg, tags, lambda Z: dwt.impl_fwd1d(w, mode, J, Z), X, impl)
        if J == 1 and n in (5, 12):
            res.sample({'config': cfg, 'impulses': n, 'band_lengths': [b.shape[-1] for b in impl]})


def _run2(res, item):
    w, mode, h, ww = item['wave'], item['mode'], item['h'], item['w']
    L = dwt.flen(w)
    X = common.eye_batch((h, ww))
    cap = item['jcap']
    Jmax = min(cap, max(dwt.closure_depth(h, L, mode, cap), dwt.closure_depth(ww, L, mode, cap)) + 1)
    for J in range(1, Jmax + 1):
        cfg = {'dim': 2, 'wave': w, 'mode': mode, 'h': h, 'w': ww, 'J': J}
        lh = dwt.level_lengths(h, L, mode, J)
        lw = dwt.level_lengths(ww, L, mode, J)
        tags = dwt.regimes_1d(h, L, mode, J, 'r') + dwt.regimes_1d(ww, L, mode, J, 'c')
        if h != ww:
            tags.append('2d:h!=w')
        for a, b in zip(lh[:-1], lw[:-1]):
            res.state(2, w, mode, a, b)
        try:
            ref = dwt.ref_fwd2d(w, mode, J, X[:, 0])
            ref = [r[:, None] for r in ref]
        except Exception:
            res['ood'] += 1
            continue
        try:
            impl = dwt.impl_fwd2d(w, mode, J, X)
        except Exception as e:
            res['impl_calls'] += 1
            if allowed_raise(mode, lh[:-1] + lw[:-1], L):
                res.regime('reflect:allowed_raise')
                res['ood'] += 1
            else:
                res.violation('analysis_vs_pywt', cfg, {'kind': 'raise', 'exc': repr(e)[:200]}, tags)
            continue
        res['impl_calls'] += 1
        res['transitions'] += J
        res.regime(*tags)
        _compare(res, cfg, impl, ref, tags)
        if h * ww <= 64:
            _shape_variants(res, cfg, tags, lambda Z: dwt.impl_fwd2d(w, mode, J, Z), X, impl)
        if J == 2 and (h, ww) == (5, 3):
            res.sample({'config': cfg, 'impulses': h * ww, 'band_shapes': [list(b.shape[-2:]) for b in impl]})
