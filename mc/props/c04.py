"""C04 - DTCWT perfect reconstruction with symmetric extension: inverse(forward(e_i))[:H,:W] = e_i on every path."""
import numpy as np

from .. import common, dtc
from ..common import Res, cmp_mats
from . import c03

PID = 'C04'
LEVEL = 'model_checking'
RULE = ('same DTCWT shape graph as C03 (all 20 filter pairs, all sizes of the path grid, J = 1..closure+1): the complete impulse '
        'basis is pushed through the real DTCWTForward and its output through the real DTCWTInverse; the output must have the '
        'even-extended shape and equal the impulse on [:H,:W]; slack = 4x the reference\'s own inverse(forward) error, computed '
        'when the implementation\'s error exceeds 1e-9; distinct_nontrivial = distinct (config,size,J) products compared')
ASSUMPTIONS = c03.ASSUMPTIONS
CHUNK = 1
bounds = c03.bounds


def plan(tier):
    items = []
    for (b, q) in dtc.PAIRS:
        for (h, w) in (dtc.grid(tier, 'biort') if tier == 'quick' else dtc.grid(tier, 'pairs')):     # quick: full [2..12]^2 (no reference calls needed)
            items.append({'biort': b, 'qshift': q, 'h': h, 'w': w, 'jcap': c03.jcap(tier)})
    if tier == 'thorough':
        for b in dtc.BIORTS:
            for (h, w) in dtc.grid(tier, 'biort'):
                if h > 16 or w > 16:
                    items.append({'biort': b, 'qshift': 'qshift_b', 'h': h, 'w': w, 'jcap': 3})
    for (b, q) in dtc.BIG_PAIRS:
        for (h, w) in dtc.BIG:
            items.append({'biort': b, 'qshift': q, 'h': h, 'w': w, 'jcap': c03.jcap(tier)})
    items.sort(key=lambda it: -(it['h'] * it['w']))
    return items


def required_regimes(tier):
    return (c03.required_regimes(tier) - {'variant:N=1', 'variant:C=2', 'variant:no_grad', 'variant:inference_mode'}) | {'odd_extended_output', 'single_images'}


def run(item):
    common.init_worker()
    res = Res()
    b, q, H, W = item['biort'], item['qshift'], item['h'], item['w']
    Jmax = min(item['jcap'], dtc.closure_depth(H, W, item['jcap']) + 1)
    P = H * W
    X = common.eye_batch((H, W))
    pth = dtc.path(H, W, Jmax)
    for J in range(1, Jmax + 1):
        cfg = {'biort': b, 'qshift': q, 'h': H, 'w': W, 'J': J}
        tags = [t for st in pth[:J] for t in st[4]]
        if H != W:
            tags.append('size:h!=w')
        if min(H, W) < 13:
            tags.append('image_smaller_than_filter')
        if J >= 2 and pth[J - 1][1] == pth[J - 1][2]:
            tags.append('closure:self_loop')
        if H % 2 or W % 2:
            tags.append('odd_extended_output')
        for st in pth[:J]:
            res.state('l1' if st[0] == 1 else 'l2+', b if st[0] == 1 else q, st[1])
        res['impl_calls'] += 2
        try:
            yl, yh = dtc.impl_forward(b, q, X, J)
        except Exception:
            res['ood'] += 1
            continue
        try:
            R = dtc.impl_inverse(b, q, yl, yh).numpy()
        except Exception as e:
            res.violation('perfect_reconstruction', cfg, {'kind': 'raise', 'exc': repr(e)[:200]}, tags)
            continue
        res['transitions'] += 2 * J
        res['evals'] += P
        res.regime(*tags)
        if tuple(R.shape[2:]) != (dtc.even(H), dtc.even(W)):
            res.violation('perfect_reconstruction', cfg, {'kind': 'shape', 'observed': list(R.shape[2:]),
                                                          'expected': [dtc.even(H), dtc.even(W)]}, tags)
            continue
        M = R[:, 0, :H, :W].reshape(P, P).T
        d = cmp_mats(M, np.eye(P), scale=1.0)
        if d is not None:
            sc, hi = dtc.ref_forward(b, q, X[:, 0], J)
            rr = dtc.ref_inverse(b, q, sc[J - 1], hi)
            err_ref = common.maxabs(rr[:, :H, :W] - X[:, 0])
            d = cmp_mats(M, np.eye(P), tol=max(common.TOL, 4 * err_ref), scale=1.0)
            if d is not None:
                d['err_ref'] = err_ref
                res.violation('perfect_reconstruction', cfg, d, tags)
        res['ophashes'].append(common.sha(cfg))
        # single images (batch of one): the zero image, a constant image and one impulse - values whose sub-bands are exactly zero
        import torch
        for nm, img in (('zero', np.zeros((1, 1, H, W))), ('constant', np.ones((1, 1, H, W))), ('impulse', X[P // 2:P // 2 + 1])):
            try:
                a_, b_ = dtc.impl_forward(b, q, img, J)
                r1 = dtc.impl_inverse(b, q, a_, b_).numpy()
                res['impl_calls'] += 2
                res['evals'] += 1
                if tuple(r1.shape[2:]) != (dtc.even(H), dtc.even(W)) or common.maxabs(r1[:, :, :H, :W] - img) > common.TOL:
                    res.violation('perfect_reconstruction', dict(cfg, single_image=nm), {'kind': 'value_or_shape', 'observed_shape': list(r1.shape[2:]),
                                                                                         'expected_shape': [dtc.even(H), dtc.even(W)]}, tags)
            except Exception as e:
                res.violation('perfect_reconstruction', dict(cfg, single_image=nm), {'kind': 'raise', 'exc': repr(e)[:200]}, tags)
        res.regime('single_images')
        if (H, W, J) in ((5, 6, 2), (7, 10, 3)):
            res.sample({'config': cfg, 'impulses': P, 'reconstruction_shape': list(R.shape[2:])})
    return res
