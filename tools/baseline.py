#!/venv/bin/python
"""Run the repository's own test suite (hook guard off) and compare with the pinned stable baseline.
usage: tools/baseline.py [repo_dir]      exit 0 iff every stable-pass test still passes."""
import json, os, subprocess, sys, tempfile
import xml.etree.ElementTree as ET
repo = sys.argv[1] if len(sys.argv) > 1 else '/repo'
here = os.path.dirname(os.path.abspath(__file__))
stable = set(json.load(open(os.path.join(here, 'stable_pass.json'))))
env = dict(os.environ)
env.pop('PYTORCH_WAVELETS_VERIF', None)
env['PYTHONPATH'] = repo
env['PYTHONDONTWRITEBYTECODE'] = '1'
env['OMP_NUM_THREADS'] = '2'
with tempfile.TemporaryDirectory() as td:
    xml = os.path.join(td, 'j.xml')
    cmd = ['/venv/bin/python', '-m', 'pytest', '-q', '-p', 'no:cacheprovider', '--timeout=900',
           '--continue-on-collection-errors', '-n', '8', '--junitxml=' + xml]
    p = subprocess.run(cmd, cwd=repo, env=env, stdout=subprocess.PIPE, stderr=subprocess.STDOUT, text=True)
    passed = set()
    for tc in ET.parse(xml).getroot().iter('testcase'):
        if not any(ch.tag in ('failure', 'error', 'skipped') for ch in tc):
            passed.add('%s::%s' % (tc.get('classname'), tc.get('name')))
missing = sorted(stable - passed)
print('baseline: %d stable tests, %d passed now, %d missing' % (len(stable), len(stable & passed), len(missing)))
for m in missing[:20]:
    print('  NOT PASSING:', m)
sys.exit(1 if missing else 0)
