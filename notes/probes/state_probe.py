import warnings, logging, sys, types
logging.disable(logging.WARNING); warnings.simplefilter('ignore')
import numpy as np, torch
import pytorch_wavelets, pytorch_wavelets.dtcwt.lowlevel2, pytorch_wavelets.dwt.transform2d
from pytorch_wavelets import *
for name,m in sorted(sys.modules.items()):
    if not name.startswith('pytorch_wavelets'): continue
    for k,v in vars(m).items():
        if k.startswith('__'): continue
        if isinstance(v,(types.ModuleType,types.FunctionType,type,str,int,float,bool,tuple,type(None))): 
            if isinstance(v,types.FunctionType) and v.__dict__: print(name,k,'function attrs',list(v.__dict__))
            continue
        print(name,k,type(v).__name__, (len(v) if hasattr(v,'__len__') else ''))
