import warnings, itertools, time, logging
logging.disable(logging.WARNING)
import numpy as np, torch
torch.set_default_dtype(torch.float64)
warnings.simplefilter('ignore')
from pytorch_wavelets import DTCWTForward, DTCWTInverse
def flat(yl,yh): return torch.cat([yl.reshape(yl.shape[0],-1)]+[h.reshape(h.shape[0],-1) for h in yh if h.dim()>0],dim=1)
bad={}; n=0; t0=time.time()
for b,q in [('near_sym_a','qshift_a'),('antonini','qshift_06'),('legall','qshift_b'),('near_sym_b','qshift_d'),('near_sym_a','qshift_c')]:
  for J in (1,2,3):
    for H,W in [(4,4),(5,6),(6,8),(8,8),(10,12),(7,5)]:
        f=DTCWTForward(biort=b,qshift=q,J=J); inv=DTCWTInverse(biort=b,qshift=q)
        E=torch.eye(H*W).reshape(H*W,1,H,W)
        A=flat(*f(E)).T  # M x HW
        x=torch.zeros(1,1,H,W,requires_grad=True)
        out=flat(*f(x))[0]
        G=torch.stack([torch.autograd.grad(out[m],x,retain_graph=True)[0].reshape(-1) for m in range(out.numel())])
        n+=1
        e=(A-G).abs().max().item()
        if e>1e-9: bad.setdefault('fwd',[]).append((b,q,J,H,W,round(e,5)))
        # inverse
        yl,yh=f(torch.zeros(1,1,H,W))
        sizes=[yl.numel()]+[h.numel() for h in yh]; M=sum(sizes)
        def unflat(v):
            parts=torch.split(v,sizes,dim=1)
            return parts[0].reshape(-1,*yl.shape[1:]),[p.reshape(-1,*h.shape[1:]) for p,h in zip(parts[1:],yh)]
        S=inv(unflat(torch.eye(M))).reshape(M,-1).T  # P x M
        v=torch.zeros(1,M,requires_grad=True)
        o=inv(unflat(v)).reshape(-1)
        G2=torch.stack([torch.autograd.grad(o[p],v,retain_graph=True)[0].reshape(-1) for p in range(o.numel())])
        e=(S-G2).abs().max().item()
        if e>1e-9: bad.setdefault('inv',[]).append((b,q,J,H,W,round(e,5)))
print(n,time.time()-t0)
for k,v in bad.items(): print(k,len(v),v[:10])
