"""A cooperative scheduler for real Python threads, written for C15: worker threads run real library calls under
sys.settrace; before every `line` event in a frame whose file is under the library the thread reaches a scheduling point
and hands the baton (per-thread semaphores) to the thread the explorer chose.  Stateless depth-first enumeration of
choice sequences with a preemption bound (CHESS-style iterative context bounding); executions always run to completion;
a divergence while replaying a prefix is a hard error."""
import ast
import os
import sys
import threading


class Divergence(Exception):
    pass


def visible_lines(libdir):
    """(file, line) pairs whose statement can touch state shared between threads: stores through subscripts / attributes,
    augmented assignments, reads of attributes of self / ctx / modules, calls of in-place methods (name ends with '_'),
    out= keywords, global statements, and any mention of a module-level name bound to a mutable container or a function
    carrying attributes (caches)."""
    vis = set()
    for root, _, files in os.walk(libdir):
        for f in files:
            if not f.endswith('.py'):
                continue
            path = os.path.join(root, f)
            try:
                tree = ast.parse(open(path).read())
            except SyntaxError:
                continue
            glob = set()
            for node in tree.body:
                if isinstance(node, (ast.Assign, ast.AnnAssign, ast.AugAssign)):
                    tg = node.targets if isinstance(node, ast.Assign) else [node.target]
                    for t in tg:
                        if isinstance(t, ast.Name):
                            glob.add(t.id)
            for node in ast.walk(tree):
                hit = False
                if isinstance(node, (ast.Subscript, ast.Attribute)) and isinstance(getattr(node, 'ctx', None), (ast.Store, ast.Del)):
                    hit = True
                elif isinstance(node, (ast.AugAssign, ast.Global, ast.Nonlocal)):
                    hit = True
                elif isinstance(node, ast.Attribute) and isinstance(node.value, ast.Name) and node.value.id in ('self', 'ctx'):
                    hit = True
                elif isinstance(node, ast.Call) and isinstance(node.func, ast.Attribute) and node.func.attr.endswith('_') and not node.func.attr.startswith('__'):
                    hit = True
                elif isinstance(node, ast.keyword) and node.arg == 'out':
                    hit = True
                elif isinstance(node, ast.Name) and node.id in glob and node.id.upper() == node.id:
                    hit = True
                elif isinstance(node, ast.Name) and node.id in glob and isinstance(node.ctx, ast.Load) and node.id.startswith('_'):
                    hit = True
                if hit and hasattr(node, 'lineno'):
                    vis.add((os.path.realpath(path), node.lineno))
    return vis


class Execution:
    """One controlled execution of `bodies` (callables) following `prefix` of choices, then the default (stay on the
    running thread; at a thread's end continue with the lowest unfinished id)."""

    EXTRA = ('numpy/lib/npyio.py', 'numpy/lib/_npyio_impl.py')     # the table loader fills its cache entry from inside NpzFile

    def __init__(self, bodies, prefix, libdir, only=None):
        self.bodies = bodies
        self.prefix = list(prefix)
        self.lib = os.path.realpath(libdir) + os.sep
        self.only = only                  # restrict scheduling points to these (file, line) pairs (None = every line)
        self.n = len(bodies)
        self.sem = [threading.Semaphore(0) for _ in range(self.n)]
        self.done = [False] * self.n
        self.results = [None] * self.n
        self.errors = [None] * self.n
        self.points = []                  # (tid, file, line, n_enabled)
        self.choices = []
        self.current = 0
        self.finished = threading.Semaphore(0)
        self.abort = None

    # -- tracing ----------------------------------------------------------------------------------------------------
    def _global_trace(self, frame, event, arg):
        fn = frame.f_code.co_filename
        if fn.startswith(self.lib) or os.path.realpath(fn).startswith(self.lib):
            return self._local_trace
        if self.only is None and fn.endswith(self.EXTRA):
            return self._local_trace          # lines of numpy's .npz reader, reached while a library frame loads a table
        return None

    def _local_trace(self, frame, event, arg):
        if event == 'line':
            key = (os.path.realpath(frame.f_code.co_filename), frame.f_lineno)
            if self.only is None or key in self.only:
                self._point(self._tid(), key)
        return self._local_trace

    def _tid(self):
        return threading.current_thread()._c15_tid

    def _enabled(self, tid):
        return [tid] + [t for t in range(self.n) if t != tid and not self.done[t]]

    def _point(self, tid, key):
        if self.abort:
            raise SystemExit
        en = self._enabled(tid)
        i = len(self.points)
        self.points.append((tid, key[0], key[1], len(en)))
        c = self.prefix[i] if i < len(self.prefix) else 0
        if c >= len(en):
            self.abort = Divergence('choice %d at point %d out of range (%d enabled)' % (c, i, len(en)))
            self.finished.release()
            raise SystemExit
        self.choices.append(c)
        nxt = en[c]
        if nxt != tid:
            self.current = nxt
            self.sem[nxt].release()
            self.sem[tid].acquire()
            if self.abort:
                raise SystemExit

    def _run_thread(self, tid):
        threading.current_thread()._c15_tid = tid
        self.sem[tid].acquire()                   # wait for the baton
        if self.abort:
            return
        sys.settrace(self._global_trace)
        try:
            self.results[tid] = self.bodies[tid]()
        except SystemExit:
            pass
        except BaseException as e:               # noqa
            self.errors[tid] = repr(e)[:300]
        finally:
            sys.settrace(None)
            self.done[tid] = True
            rest = [t for t in range(self.n) if not self.done[t]]
            if self.abort or not rest:
                self.finished.release()
                for t in rest:
                    self.sem[t].release()
            else:
                self.current = rest[0]
                self.sem[rest[0]].release()

    def run(self):
        ths = [threading.Thread(target=self._run_thread, args=(t,), daemon=True) for t in range(self.n)]
        for t in ths:
            t.start()
        self.sem[0].release()
        self.finished.acquire()
        for t in ths:
            t.join(timeout=60)
        if self.abort:
            raise self.abort
        if len(self.choices) < len(self.prefix):
            raise Divergence('execution ended after %d points, prefix has %d' % (len(self.choices), len(self.prefix)))
        return self

    def preemptions(self, upto=None):
        ch = self.choices if upto is None else self.choices[:upto]
        return sum(1 for c in ch if c != 0)


def explore(make_bodies, libdir, bound, check, only=None, cap=None, prefixes=None):
    """Depth-first enumeration of all schedules with at most `bound` preemptions. make_bodies() builds fresh bodies for one
    execution; check(execution) judges it. Returns stats. `prefixes`: explore only below these root prefixes."""
    stats = {'executions': 0, 'max_points': 0, 'bound': bound, 'capped': False, 'points_thread': {}}
    stack = [list(p) for p in (prefixes if prefixes is not None else [[]])]
    while stack:
        prefix = stack.pop()
        if cap is not None and stats['executions'] >= cap:
            stats['capped'] = True
            break
        x = Execution(make_bodies(), prefix, libdir, only).run()
        stats['executions'] += 1
        stats['max_points'] = max(stats['max_points'], len(x.points))
        if not prefix:
            for (tid, _, _, _) in x.points:
                stats['points_thread'][tid] = stats['points_thread'].get(tid, 0) + 1
        check(x)
        used = x.preemptions(len(prefix))
        for i in range(len(prefix), len(x.points)):
            if x.points[i][3] < 2:
                continue
            if used + 1 > bound:
                break
            stack.append(x.choices[:i] + [1])
    return stats
