import warnings
import numpy as np, torch, pywt
torch.set_default_dtype(torch.float64)
import pytorch_wavelets.dwt.lowlevel as ll
warnings.simplefilter('ignore')
bad={}
n=0
for w in ['db1','db2','db3','bior2.4','bior1.3','bior3.1','sym5']:
    W=pywt.Wavelet(w); L=W.dec_len
    for mode in ['zero','symmetric','reflect','periodization']:
        for H in range(2,14):
            for Wd in range(2,14):
                x=torch.randn(2,2,H,Wd)
                try: a=ll.afb2d(x,(W.dec_lo,W.dec_hi),mode=mode)
                except Exception as e:
                    try:
                        ll.afb2d_nonsep(x,(W.dec_lo,W.dec_hi),mode=mode); bad.setdefault((mode,'sep raises, nonsep not'),[]).append((w,L,H,Wd))
                    except Exception: pass
                    continue
                n+=1
                try: b=ll.afb2d_nonsep(x,(W.dec_lo,W.dec_hi),mode=mode)
                except Exception as e: bad.setdefault((mode,'nonsep raise',str(e)[:40]),[]).append((w,L,H,Wd)); continue
                if a.shape!=b.shape: bad.setdefault((mode,'afb shape'),[]).append((w,L,H,Wd,tuple(a.shape),tuple(b.shape))); continue
                if (a-b).abs().max()>1e-9: bad.setdefault((mode,'afb diff'),[]).append((w,L,H,Wd)); 
                # synthesis on arbitrary coeffs
                c=torch.randn_like(a); s=c.shape
                c5=c.reshape(s[0],-1,4,s[-2],s[-1])
                ya=ll.sfb2d(c5[:,:,0],c5[:,:,1],c5[:,:,2],c5[:,:,3],(W.rec_lo,W.rec_hi),mode=mode)
                try: yb=ll.sfb2d_nonsep(c5,(W.rec_lo,W.rec_hi),mode=mode)
                except Exception as e: bad.setdefault((mode,'sfb nonsep raise',str(e)[:40]),[]).append((w,L,H,Wd)); continue
                if ya.shape!=yb.shape: bad.setdefault((mode,'sfb shape'),[]).append((w,L,H,Wd,tuple(ya.shape),tuple(yb.shape))); continue
                if (ya-yb).abs().max()>1e-9: bad.setdefault((mode,'sfb diff'),[]).append((w,L,H,Wd))
print(n)
for k,v in bad.items():
    print(k,len(v),v[:8]); print('     not short:', [x for x in v if min(x[2]+x[2]%2,x[3]+x[3]%2)>=x[1]][:8])
