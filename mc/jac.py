"""Jacobian extraction: forward operator on the impulse basis, back-propagated operator on the complete
cotangent basis (batched: the base point is replicated, item i of the batch receives the i-th unit cotangent)."""
import numpy as np


def _flatlist(outs):
    return [o for o in outs if o is not None and o.dim() > 0 and o.numel() > 0]


def forward_matrix(f, base, scale=1.0):
    """Columns of the (affine-free) operator around `base` inputs: f is assumed linear, so A[:, i] = f(e_i).
    base: list of tensors with leading batch dim 1 (only shapes are used). Returns (M x P) numpy, band shapes."""
    import torch
    sizes = [int(np.prod(b.shape[1:])) for b in base]
    P = sum(sizes)
    ins = []
    off = 0
    for b, m in zip(base, sizes):
        t = torch.zeros((P,) + tuple(b.shape[1:]), dtype=b.dtype)
        t.reshape(P, -1)[off + torch.arange(m), torch.arange(m)] = scale
        off += m
        ins.append(t)
    with torch.no_grad():
        outs = _flatlist(f(*ins))
    A = np.concatenate([o.reshape(P, -1).numpy() for o in outs], axis=1).T / scale
    return A, [tuple(o.shape[1:]) for o in outs]


def vjp_matrices(f, base, req, chunk=384):
    """Back-propagate every unit cotangent of every output element.
    base: list of (1,...) tensors (the base point); req: list of bools (which inputs require grad).
    Returns (G, M, info): G[i] = (P_i x M) numpy matrix for every input with req[i] (None when autograd returned no
    gradient for it), M the number of output elements."""
    import torch
    with torch.no_grad():
        o1 = _flatlist(f(*[b.clone() for b in base]))
    osz = [int(np.prod(o.shape[1:])) for o in o1]
    M = sum(osz)
    sizes = [int(np.prod(b.shape[1:])) for b in base]
    G = [np.zeros((sizes[i], M)) if req[i] else None for i in range(len(base))]
    missing = [False] * len(base)
    for r0 in range(0, M, chunk):
        r1 = min(M, r0 + chunk)
        n = r1 - r0
        ins = []
        for b, rq in zip(base, req):
            t = b.repeat((n,) + (1,) * (b.dim() - 1)).clone()
            t.requires_grad_(bool(rq))
            ins.append(t)
        outs = _flatlist(f(*ins))
        cots = []
        off = 0
        for o, m in zip(outs, osz):
            c = torch.zeros(o.shape, dtype=o.dtype)      # contiguous, so the reshape below is a view
            lo, hi = max(r0, off), min(r1, off + m)
            if hi > lo:
                rows = torch.arange(lo, hi)
                c.reshape(n, -1)[rows - r0, rows - off] = 1.0
            off += m
            cots.append(c)
        wrt = [t for t, rq in zip(ins, req) if rq]
        live = [(o, c) for o, c in zip(outs, cots) if o.requires_grad]
        if not live:
            grads = [None] * len(wrt)
        else:
            first = r0 == 0
            grads = torch.autograd.grad([o for o, _ in live], wrt, grad_outputs=[c for _, c in live], allow_unused=True, retain_graph=first)
            if first:
                # "for every cotangent": pulling a second cotangent back through the SAME graph must give the same map
                again = torch.autograd.grad([o for o, _ in live], wrt, grad_outputs=[c for _, c in live], allow_unused=True)
                for g1, g2 in zip(grads, again):
                    if (g1 is None) != (g2 is None) or (g1 is not None and not torch.equal(g1, g2)):
                        raise AssertionError('second backward pass through the same graph differs from the first')
        k = 0
        for i, rq in enumerate(req):
            if not rq:
                continue
            g = grads[k]
            k += 1
            if g is None:
                missing[i] = True
            else:
                G[i][:, r0:r1] = g.reshape(n, -1).numpy().T
    for i in range(len(base)):
        if missing[i]:
            G[i] = None
    return G, M


def vjp_single(f, base, req, rows):
    """Validation of the batched trick: one autograd.grad per listed output element, batch size 1."""
    import torch
    out = {}
    for r in rows:
        ins = [b.clone().requires_grad_(bool(rq)) for b, rq in zip(base, req)]
        outs = _flatlist(f(*ins))
        osz = [int(np.prod(o.shape[1:])) for o in outs]
        cots = []
        off = 0
        for o, m in zip(outs, osz):
            c = torch.zeros(o.shape, dtype=o.dtype)      # contiguous, so the reshape below is a view
            if off <= r < off + m:
                c.reshape(1, -1)[0, r - off] = 1.0
            off += m
            cots.append(c)
        wrt = [t for t, rq in zip(ins, req) if rq]
        live = [(o, c) for o, c in zip(outs, cots) if o.requires_grad]
        grads = torch.autograd.grad([o for o, _ in live], wrt, grad_outputs=[c for _, c in live], allow_unused=True)
        out[r] = [None if g is None else g.reshape(-1).numpy() for g in grads]
    return out
