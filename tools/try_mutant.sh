#!/bin/bash
# usage: tools/try_mutant.sh <patch.diff> <PID> [<PID> ...]   (developer tool, not a registered command)
# applies the patch to /repo, runs the quick check of each property, restores /repo.  Prints one line per property.
patch="$1"; shift
cd /repo || exit 2
if [ -n "$(git status --porcelain --untracked-files=no)" ]; then echo "repo not clean"; exit 2; fi
trap 'git -C /repo checkout -- . ; find /repo/pytorch_wavelets -name "*.rej" -delete' EXIT
git apply "$patch" || { echo "patch does not apply"; exit 2; }
cd /verif
for pid in "$@"; do
  out=$(timeout 1500 ./check "$pid" ${TIER:-quick} 2>&1); rc=$?
  nv=$(echo "$out" | grep -c '^VIOLATION')
  echo "$pid rc=$rc violations_printed=$nv :: $(echo "$out" | grep '^VIOLATION' | head -1 | cut -c1-260)"
done
