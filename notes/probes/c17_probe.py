import warnings, logging, time
logging.disable(logging.WARNING); warnings.simplefilter('ignore')
import numpy as np, torch, pywt
torch.set_default_dtype(torch.float64)
from pytorch_wavelets import DWT1DForward, DWT1DInverse, DWTForward, DWTInverse
orth=[w for w in pywt.wavelist(kind='discrete') if pywt.Wavelet(w).orthogonal]
print(len(orth), [w for w in pywt.wavelist(kind='discrete') if not pywt.Wavelet(w).orthogonal][:50])
bad=[];n=0;t0=time.time()
for w in orth:
    L=pywt.Wavelet(w).dec_len
    for J in (1,2,3):
        for m in (1,2,3):
            N=m*2**J
            while N//2**(J-1)<L: N+= 2**J
            if N>400: continue
            f=DWT1DForward(J=J,wave=w,mode='periodization'); i=DWT1DInverse(wave=w,mode='periodization')
            yl,yh=f(torch.eye(N)[:,None,:]); A=torch.cat([yl[:,0]]+[h[:,0] for h in yh],1).T
            n+=1
            e1=(A.T@A-torch.eye(N)).abs().max().item(); e2=(A@A.T-torch.eye(N)).abs().max().item()
            sizes=[yl.shape[-1]]+[h.shape[-1] for h in yh]
            parts=torch.split(torch.eye(N),sizes,dim=1)
            S=i((parts[0][:,None,:],[p[:,None,:] for p in parts[1:]]))[:,0].T
            e3=(S-A.T).abs().max().item()
            if max(e1,e2,e3)>1e-7: bad.append((w,L,J,N,e1,e2,e3))
print(n,time.time()-t0,len(bad)); print(bad[:20])
