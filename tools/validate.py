#!/opt/veriftools/pyvenv/bin/python
"""Validate MANIFEST.json and every evidence file against the schemas (tooling venv has jsonschema)."""
import glob, json, sys, os
import jsonschema
V = os.path.dirname(os.path.dirname(os.path.abspath(__file__)))
ok = True
ms = json.load(open('/root/.vp/MANIFEST.schema.json')); es = json.load(open('/root/.vp/EVIDENCE.schema.json'))
try:
    jsonschema.validate(json.load(open(V + '/MANIFEST.json')), ms); print('MANIFEST ok')
except Exception as e:
    ok = False; print('MANIFEST INVALID', e)
for f in sorted(glob.glob(V + '/evidence/*.json')):
    try:
        jsonschema.validate(json.load(open(f)), es); print('ok', os.path.basename(f))
    except Exception as e:
        ok = False; print('INVALID', f, str(e)[:300])
sys.exit(0 if ok else 1)
