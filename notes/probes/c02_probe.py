import warnings, time, sys
import numpy as np, torch, pywt
torch.set_default_dtype(torch.float64)
from pytorch_wavelets import DWT1DForward, DWT1DInverse
warnings.simplefilter('ignore')
modes=['zero','symmetric','reflect','periodic','periodization']
t0=time.time(); nconf=0; bad={}
for w in pywt.wavelist(kind='discrete'):
    L=pywt.Wavelet(w).dec_len
    for mode in modes:
        for N in list(range(2,min(2*L+4, 40))):
          for J in (1,2,3):
            X=np.eye(N)[:,None,:]
            try:
                yl,yh=DWT1DForward(J=J,wave=w,mode=mode)(torch.tensor(X))
            except Exception as e:
                continue
            nconf+=1
            try:
                xr=DWT1DInverse(wave=w,mode=mode)((yl,yh)).numpy()
            except Exception as e:
                bad.setdefault((mode,'invraise',type(e).__name__, str(e)[:60]),[]).append((w,L,N,J)); continue
            co=pywt.wavedec(X,w,mode=mode,level=J,axis=-1)
            xp=pywt.waverec(co,w,mode=mode,axis=-1)
            # C10-style: inverse equals pywt inverse on pywt coefficients
            if xr.shape[-1] not in (N,N+1):
                bad.setdefault((mode,'shape'),[]).append((w,L,N,J,xr.shape[-1],xp.shape[-1])); continue
            err=np.abs(xr[...,:N]-X).max(); errp=np.abs(xp[...,:N]-X).max()
            if err>1e-8 and err>2*errp:
                bad.setdefault((mode,'notPR'),[]).append((w,L,N,J,float(err),float(errp)))
            if xr.shape!=xp.shape:
                bad.setdefault((mode,'shape_vs_pywt'),[]).append((w,L,N,J,xr.shape[-1],xp.shape[-1]))
print(nconf, time.time()-t0)
for k,v in bad.items():
    print(k, len(v), v[:8])
    print('   N+N%2<L:', sum(1 for x in v if x[2]+x[2]%2<x[1]), ' else:', [x for x in v if x[2]+x[2]%2>=x[1]][:10])
