"""Operations, inputs and digests for C15 (purity): a small pool of module configurations chosen to collide on shared
state, fixed inputs of different shapes / dtypes, and the pristine-interpreter reference of every operation."""
import json
import os
import subprocess
import sys

import numpy as np

from . import hidden

# name -> (constructor source evaluated in a namespace with the library imported, default dtype while constructing)
POOL = {
    'dtf_a': ("DTCWTForward(biort='near_sym_a', qshift='qshift_a', J=2)", 'float64'),
    'dtf_b': ("DTCWTForward(biort='near_sym_a', qshift='qshift_b', J=2, o_dim=1, ri_dim=2)", 'float64'),
    'scat1': ("ScatLayer(biort='near_sym_a', magbias=1e-2)", 'float64'),
    'dwt_per': ("DWTForward(J=2, wave='db3', mode='periodization')", 'float64'),
    'dti_a': ("DTCWTInverse(biort='near_sym_a', qshift='qshift_a')", 'float64'),
    'dwt_sym32': ("DWTForward(J=1, wave='db2', mode='symmetric')", 'float32'),
    'dwt1d_pc': ("DWT1DForward(J=2, wave='db2', mode='periodic')", 'float64'),
    'idwt_per': ("DWTInverse(wave='db3', mode='periodization')", 'float64'),
    'dwt_coif1': ("DWTForward(J=1, wave='coif1', mode='zero')", 'float64'),      # same filter length as db3, other taps
    'scat2': ("ScatLayerj2(biort='near_sym_a', qshift='qshift_a', magbias=1e-2)", 'float64'),
    'dtf_masks': ("DTCWTForward(biort='near_sym_b', qshift='qshift_c', J=3, skip_hps=[False, True, False], include_scale=[True, False, True])", 'float64'),
}
ORDER = list(POOL)
LOADS = ['near_sym_a', 'qshift_a', 'qshift_b']


def _arr(shape, k, dtype):
    n = int(np.prod(shape))
    v = np.cos(0.37 * np.arange(n) + 0.11 * k) + 0.01 * (np.arange(n) % 7)
    return v.reshape(shape).astype(dtype)


def inputs(name, i):
    """Fixed input number i (0/1: different shapes) for module `name`, as a list-structured description of numpy arrays."""
    dt = np.float32 if POOL[name][1] == 'float32' else np.float64
    if name in ('dtf_a', 'dtf_b', 'scat1', 'scat2', 'dwt_per', 'dwt_sym32', 'dwt_coif1', 'dtf_masks'):
        shape = [(1, 1, 8, 8), (2, 2, 6, 10)][i] if name not in ('scat1', 'scat2') else ([(1, 1, 8, 8), (2, 2, 6, 12)][i] if name == 'scat1' else [(1, 1, 10, 16), (2, 2, 12, 13)][i])
        return {'x': _arr(shape, i, dt)}
    if name == 'dwt1d_pc':
        return {'x': _arr([(1, 1, 16), (2, 3, 9)][i], i, dt)}
    if name == 'dti_a':
        if i == 0:      # pyramid of an 8x8 image, J=2
            return {'yl': _arr((1, 1, 4, 4), 1, dt), 'yh': [_arr((1, 1, 6, 4, 4, 2), 2, dt), _arr((1, 1, 6, 2, 2, 2), 3, dt)]}
        # 8x8 image, J=3, level 2 absent (the forward's 0-dim skip placeholder) - the caller's list must come back untouched
        return {'yl': _arr((2, 2, 2, 2), 4, dt), 'yh': [_arr((2, 2, 6, 4, 4, 2), 5, dt), 'placeholder', _arr((2, 2, 6, 1, 1, 2), 6, dt)]}
    if name == 'idwt_per':
        if i == 0:
            return {'yl': _arr((1, 1, 2, 2), 1, dt), 'yh': [_arr((1, 1, 3, 4, 4), 2, dt), _arr((1, 1, 3, 2, 2), 3, dt)]}
        return {'yl': _arr((2, 2, 2, 3), 4, dt), 'yh': [None, _arr((2, 2, 3, 2, 3), 5, dt)]}              # 8x12 image, J=2, finest level None
    raise KeyError(name)


def construct(name):
    import torch
    import pytorch_wavelets
    from pytorch_wavelets import DTCWTForward, DTCWTInverse, DWTForward, DWTInverse, DWT1DForward, DWT1DInverse, ScatLayer, ScatLayerj2
    src, dt = POOL[name]
    old = torch.get_default_dtype()
    torch.set_default_dtype(getattr(torch, dt))
    try:
        return eval(src)
    finally:
        torch.set_default_dtype(old)


def instance_digest(mod):
    return hidden.canon(mod)


def _flatten(out):
    import torch
    res = []

    def rec(o):
        if isinstance(o, torch.Tensor):
            res.append(o)
        elif isinstance(o, (list, tuple)):
            for v in o:
                rec(v)
        elif o is None:
            pass
    rec(out)
    return res


def call(mod, name, i, gradmode):
    """Returns (args, args_digest_before, outputs list, grads list). gradmode: 'nograd' | 'grad' (requires_grad inputs + backward)."""
    import torch
    d = inputs(name, i)
    g = gradmode == 'grad'
    if 'x' in d:
        x = torch.tensor(d['x'], requires_grad=g)
        args = [x]
        leaves = [x]
        arg_struct = x
    else:
        yl = torch.tensor(d['yl'], requires_grad=g)
        yh = [None if h is None else (yl.new_zeros([]) if isinstance(h, str) else torch.tensor(h, requires_grad=g)) for h in d['yh']]
        leaves = [yl] + [h for h in yh if h is not None and h.dim() > 0]
        arg_struct = (yl, yh)
    before = digest(arg_struct)
    if g:
        out = mod(arg_struct)
    else:
        with torch.no_grad():
            out = mod(arg_struct)
    outs = _flatten(out)
    grads = []
    cot_state = None
    if g:
        live = [o for o in outs if o.requires_grad]
        cots = [torch.as_tensor(_arr(tuple(o.shape), 9, np.float64)).to(o.dtype).contiguous() for o in live]
        cb = digest(cots)
        grads = list(torch.autograd.grad(live, leaves, grad_outputs=cots, allow_unused=True, retain_graph=True))
        again = list(torch.autograd.grad(live, leaves, grad_outputs=cots, allow_unused=True))     # same graph, same cotangent
        if digest(again) != digest(grads):
            grads = grads + ['second_backward_through_the_same_graph_differs']
        cot_state = (cb, digest(cots))          # the caller's cotangents are arguments too: they must come back untouched
    return arg_struct, before, outs, grads, out, cot_state


def digest(o):
    """Bitwise digest of a (nested list of) tensor(s); list structure is part of it."""
    import torch
    if isinstance(o, torch.Tensor):
        a = o.detach().contiguous()
        return 't:%s:%s:%s' % (a.dtype, tuple(a.shape), hidden._digest(a.numpy().tobytes() if a.numel() else b''))
    if isinstance(o, (list, tuple)):
        return [digest(v) for v in o]
    if o is None:
        return None
    if isinstance(o, np.ndarray):
        return hidden.canon(o)
    if isinstance(o, str):
        return o
    return repr(type(o))


def op_result_digest(op, env):
    """Execute `op` in environment env = {'inst': {}, 'keep': []}; returns a JSON-able description of everything observable."""
    import torch
    kind = op[0]
    if kind == 'construct':
        m = construct(op[1])
        env['inst'][op[1]] = m
        return {'instance': instance_digest(m)}
    if kind == 'load':
        import pytorch_wavelets.dtcwt.coeffs as ic
        t = ic.qshift(op[1]) if op[1].startswith('qshift') else ic.level1(op[1], compact=True)
        return {'table': [hidden.canon(np.asarray(a)) for a in t]}
    if kind == 'mixed':
        # a call with an input of the OTHER floating dtype (float32 input to a float64 module): it may raise or return, but it
        # must not change the module (later calls see the same buffers) - the result itself is not compared
        _, name, i = op
        m = env['inst'][name]
        d = inputs(name, i)
        try:
            with torch.no_grad():
                if 'x' in d:
                    m(torch.tensor(d['x']).float() if d['x'].dtype == np.float64 else torch.tensor(d['x']).double())
        except Exception:
            pass
        return {'mixed': 'done'}
    if kind == 'call':
        _, name, i, gm = op
        m = env['inst'][name]
        args, before, outs, grads, raw, cot_state = call(m, name, i, gm)
        after = digest(args)
        if cot_state is not None and cot_state[0] != cot_state[1]:
            after = ['cotangent_mutated', after]
        kept = [raw, [g for g in grads if g is not None and not isinstance(g, str)]]          # the very objects handed to the caller
        env['keep'].append((op, kept, digest(kept)))
        return {'outputs': digest(outs), 'grads': digest(grads), 'args_before': before, 'args_after': after}
    raise ValueError(op)


def pristine(op):
    """Digest of `op` executed as the first operation of a pristine interpreter (a call constructs its module first)."""
    code = ("import sys, json; sys.argv=['x']; from mc import common, purity; common.init_worker(); "
            "op=json.loads(%r); env={'inst':{}, 'keep':[]};\n"
            "if op[0]=='call': purity.op_result_digest(['construct', op[1]], env)\n"
            "print('PRISTINE '+json.dumps(purity.op_result_digest(op, env)))") % json.dumps(op)
    envv = dict(os.environ)
    p = subprocess.run([sys.executable, '-W', 'ignore', '-c', code], env=envv, stdout=subprocess.PIPE, stderr=subprocess.PIPE, text=True, timeout=300)
    for ln in p.stdout.splitlines():
        if ln.startswith('PRISTINE '):
            return json.loads(ln[9:])
    raise RuntimeError('pristine reference failed for %r: %s' % (op, p.stderr[-800:]))
