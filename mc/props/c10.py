"""C10 - DWT synthesis equals PyWavelets on arbitrary coefficient pyramids (and None levels act as zeros)."""
import itertools

import numpy as np

from .. import common, dwt
from ..common import Res, cmp_mats
from . import c01

PID = 'C10'
LEVEL = 'model_checking'
RULE = ('synthesis edges/paths of the C01 shape graph: for every start state and J = 1..closure+1 the pyramid shapes '
        'the real forward produces there are read off, a complete basis over every coefficient of every band is pushed '
        'through the real inverse module and the extracted synthesis operator is compared entrywise with the one '
        'extracted from pywt.waverec/waverec2; for J <= 3 every non-empty subset of highpass levels is replaced by None '
        '(float32 and float64 pyramids, module built under the stock float32 default) and compared with the '
        'zeros-substituted call on the signal extent; distinct_nontrivial = distinct non-zero synthesis operators')
ASSUMPTIONS = c01.ASSUMPTIONS
CHUNK = 4
bounds = c01.bounds


def plan(tier):
    items = c01.plan(tier)
    # the documented alias 'per' (PyWavelets accepts it too), on short filters
    for w in ('db2', 'bior2.2', 'db4'):
        items.append({'dim': 1, 'wave': w, 'mode': 'per', 'ns': [5, 6, 9, 16], 'jcap': 3})
        items.append({'dim': 2, 'wave': w, 'mode': 'per', 'h': 6, 'w': 9, 'jcap': 2})
    for it in items:
        it['pcap'] = 512 if tier == 'quick' else 4096
        it['none_maxsize'] = 10 if tier == 'quick' else 16
        it['none_maxl'] = 8 if tier == 'quick' else 12
    return items


def required_regimes(tier):
    return (c01.required_regimes(tier) - {'reflect:allowed_raise', 'variant:no_grad', 'variant:positional'}) | {'variant:N=1', 'variant:C=2', 'variant:tuple', 'mode_alias:per', 'none:f32', 'none:f64', 'none:finest',
                                                                      'none:coarser_than_present', 'none:lowpass_longer'}


def run(item):
    common.init_worker()
    res = Res()
    if item['dim'] == 1:
        for n in item['ns']:
            _run(res, 1, item['wave'], item['mode'], (n,), item['jcap'], item)
    else:
        _run(res, 2, item['wave'], item['mode'], (item['h'], item['w']), item['jcap'], item)
    return res


def _shapes(dim, w, mode, J, shape):
    """Pyramid shapes produced by the real forward on an input of `shape` (zeros input, one call)."""
    import torch
    if dim == 1:
        from pytorch_wavelets import DWT1DForward
        yl, yh = DWT1DForward(J=J, wave=w, mode=mode)(torch.zeros((1, 1) + shape))
        return tuple(yl.shape[2:]), [tuple(h.shape[2:]) for h in yh]
    from pytorch_wavelets import DWTForward
    yl, yh = DWTForward(J=J, wave=w, mode=mode)(torch.zeros((1, 1) + shape))
    return tuple(yl.shape[2:]), [tuple(h.shape[3:]) for h in yh]


def _run(res, dim, w, mode, shape, cap, item):
    L = dwt.flen(w)
    Jmax = min(cap, max(dwt.closure_depth(s, L, mode, cap) for s in shape) + 1)
    for J in range(1, Jmax + 1):
        cfg = {'dim': dim, 'wave': w, 'mode': mode, 'J': J}
        if dim == 1:
            cfg['n'] = shape[0]
            tags = dwt.regimes_1d(shape[0], L, mode, J) + (['mode_alias:per'] if mode == 'per' else [])
        else:
            cfg['h'], cfg['w'] = shape
            tags = dwt.regimes_1d(shape[0], L, mode, J, 'r') + dwt.regimes_1d(shape[1], L, mode, J, 'c')
            if shape[0] != shape[1]:
                tags.append('2d:h!=w')
        try:
            lsh, hsh = _shapes(dim, w, mode, J, shape)
        except Exception:
            res['ood'] += 1          # forward does not return here (reflect, short level): no pyramid shape is produced
            continue
        for k in range(J):
            res.state(dim, w, mode, 'syn', hsh[k])
        P = (dwt.pyramid_size_1d([lsh[0]] + [s[0] for s in hsh]) if dim == 1 else dwt.pyramid_size_2d(lsh, hsh))
        if P > item['pcap']:
            res['extra']['pyramids_over_basis_cap'] = res['extra'].get('pyramids_over_basis_cap', 0) + 1
            continue
        outs, refs = [], []
        bad = False
        for r0 in range(0, P, 512):
            if dim == 1:
                yl, yh = dwt.pyramid_basis_1d([lsh[0]] + [s[0] for s in hsh], r0, r0 + 512)
            else:
                yl, yh = dwt.pyramid_basis_2d(lsh, hsh, r0, r0 + 512)
            try:
                refs.append(dwt.ref_inv1d(w, mode, yl[:, 0], [h[:, 0] for h in yh]) if dim == 1
                            else dwt.ref_inv2d(w, mode, yl[:, 0], [h[:, 0] for h in yh]))
            except Exception:
                res['ood'] += 1
                bad = True
                break
            res['impl_calls'] += 1
            try:
                outs.append((dwt.impl_inv1d(w, mode, yl, yh) if dim == 1 else dwt.impl_inv2d(w, mode, yl, yh))[:, 0])
            except Exception as e:
                res.violation('synthesis_vs_pywt', cfg, {'kind': 'raise', 'exc': repr(e)[:200]}, tags)
                bad = True
                break
        if bad:
            continue
        out = np.concatenate(outs, axis=0)
        ref = np.concatenate(refs, axis=0)
        res['transitions'] += J
        res['evals'] += P
        res.regime(*tags)
        if out.shape != ref.shape:
            res.violation('synthesis_vs_pywt', cfg, {'kind': 'shape', 'observed': list(out.shape[1:]),
                                                     'expected': list(ref.shape[1:])}, tags)
        else:
            d = cmp_mats(out.reshape(P, -1).T, ref.reshape(P, -1).T)
            if d is not None:
                res.violation('synthesis_vs_pywt', cfg, d, tags)
        res.op(out.reshape(P, -1))
        if P <= 128:
            # a batch of one and a two-channel pyramid (channel 1 = the basis in reverse order) reproduce the extracted rows
            try:
                if dim == 1:
                    yl, yh = dwt.pyramid_basis_1d([lsh[0]] + [s[0] for s in hsh])
                    inv = dwt.impl_inv1d
                else:
                    yl, yh = dwt.pyramid_basis_2d(lsh, hsh)
                    inv = dwt.impl_inv2d
                o1 = inv(w, mode, yl[:1], [h_[:1] for h_ in yh])
                ot = inv(w, mode, yl, tuple(yh))                 # the highpass levels as a tuple instead of a list
                res.regime('variant:tuple')
                if ot.shape != (P, 1) + out.shape[1:] or common.maxabs(ot[:, 0] - out) > common.TOL * max(1.0, common.maxabs(out)):
                    res.violation('synthesis_vs_pywt', dict(cfg, variant='yh as tuple'), {'kind': 'value_or_shape'}, tags)
                o2 = inv(w, mode, np.concatenate([yl, yl[::-1]], axis=1), [np.concatenate([h_, h_[::-1]], axis=1) for h_ in yh])
                res['impl_calls'] += 2
                res.regime('variant:N=1', 'variant:C=2')
                e2 = np.stack([out, out[::-1]], axis=1)
                if o1.shape != (1, 1) + out.shape[1:] or common.maxabs(o1[0, 0] - out[0]) > common.TOL * max(1.0, common.maxabs(out)) or \
                        o2.shape != e2.shape or common.maxabs(o2 - e2) > common.TOL * max(1.0, common.maxabs(e2)):
                    res.violation('synthesis_vs_pywt', dict(cfg, variant='N=1 / C=2'), {'kind': 'value_or_shape', 'shapes': [list(o1.shape), list(o2.shape)]}, tags)
            except Exception as e:
                res.violation('synthesis_vs_pywt', dict(cfg, variant='N=1 / C=2'), {'kind': 'raise', 'exc': repr(e)[:200]}, tags)
        if J == 2 and shape in ((7,), (5, 3)):
            res.sample({'config': cfg, 'pyramid_coefficients': int(P), 'lowpass_shape': list(lsh),
                        'highpass_shapes': [list(s) for s in hsh], 'output_shape': list(out.shape[1:])})
        if J <= 3 and max(shape) <= item['none_maxsize'] and L <= item['none_maxl'] and P <= 384:
            if dim == 1:
                yl, yh = dwt.pyramid_basis_1d([lsh[0]] + [s[0] for s in hsh])
            else:
                yl, yh = dwt.pyramid_basis_2d(lsh, hsh)
            _none_subsets(res, dim, w, mode, shape, J, lsh, hsh, yl, yh, cfg, tags)


def _none_subsets(res, dim, w, mode, shape, J, lsh, hsh, yl, yh, cfg0, tags0):
    L_ = dwt.flen(w)
    """Every non-empty subset of highpass levels given as None == the same call with zeros (on the signal extent),
    with the dtype of the pyramid. Modules are built under the stock default dtype (float32)."""
    import torch
    from pytorch_wavelets import DWT1DInverse, DWTInverse
    old = torch.get_default_dtype()
    torch.set_default_dtype(torch.float32)
    try:
        for dt in (torch.float32, torch.float64):
            mod = (DWT1DInverse if dim == 1 else DWTInverse)(wave=w, mode=mode)
            if dt == torch.float64:
                mod = mod.double()
            tl = torch.as_tensor(yl).to(dt)
            th = [torch.as_tensor(h).to(dt) for h in yh]
            full = None
            for r in range(1, J + 1):
                for sub in itertools.combinations(range(J), r):
                    cfg = dict(cfg0, none_levels=list(sub), dtype=str(dt).split('.')[-1])
                    tags = list(tags0) + ['none:f32' if dt == torch.float32 else 'none:f64']
                    if 0 in sub:
                        tags.append('none:finest')
                    if any(j > 0 and (j - 1) not in sub for j in sub):
                        tags.append('none:coarser_than_present')
                    lens = [dwt.level_lengths(s_, L_, mode, J) for s_ in shape]
                    if any(ln[j + 1] % 2 == 1 for j in sub if j + 1 < J for ln in lens):
                        tags.append('none_at_odd_level')
                    zh = [torch.zeros_like(h) if j in sub else h for j, h in enumerate(th)]
                    nh = [None if j in sub else h for j, h in enumerate(th)]
                    exp = mod((tl, zh))
                    # lowpass longer than the next level's highpass somewhere below a None level?
                    res['impl_calls'] += 1
                    res['evals'] += tl.shape[0]
                    try:
                        got = mod((tl, nh))
                    except Exception as e:
                        res.violation('none_as_zeros', cfg, {'kind': 'raise', 'exc': repr(e)[:200]}, tags)
                        continue
                    res.regime(*[t for t in tags if t.startswith('none:')])
                    if got.dtype != dt:
                        res.violation('none_as_zeros', cfg, {'kind': 'dtype', 'observed': str(got.dtype), 'expected': str(dt)}, tags)
                        continue
                    ext = tuple(slice(0, s) for s in shape)
                    if any(a < b for a, b in zip(got.shape[2:], shape)):
                        res.violation('none_as_zeros', cfg, {'kind': 'extent', 'observed': list(got.shape[2:]),
                                                             'expected_at_least': list(shape)}, tags)
                        continue
                    if tuple(got.shape) != tuple(exp.shape):
                        res.regime('none:lowpass_longer')
                    g = got[(slice(None), slice(None)) + ext].numpy().astype(np.float64)
                    e = exp[(slice(None), slice(None)) + ext].numpy().astype(np.float64)
                    tol = common.TOL if dt == torch.float64 else 1e-5
                    d = cmp_mats(g.reshape(g.shape[0], -1), e.reshape(e.shape[0], -1), tol=tol)
                    if d is not None:
                        sig = None
                        if 'none_at_odd_level' in tags and mode in ('periodization', 'per'):
                            cf = _uncropped_closed_form(mod, dim, tl, th, sub)
                            if cf.shape == got.shape and float((cf - got).abs().max()) <= tol:
                                sig = 'none_level_takes_uncropped_lowpass'
                        res.violation('none_as_zeros', cfg, d, tags, signature=sig)
    finally:
        torch.set_default_dtype(old)


def _uncropped_closed_form(mod, dim, tl, th, sub):
    """Closed form of known finding O4b: the level loop of the inverse with a None level replaced by zeros of the
    *uncropped* running lowpass (so the one-sample unpad that the absent band would have triggered is skipped),
    composed from single-level calls of the real inverse module."""
    import torch
    ll = tl
    for j in reversed(range(len(th))):
        if j in sub:
            h = torch.zeros_like(ll) if dim == 1 else torch.zeros(ll.shape[0], ll.shape[1], 3, ll.shape[-2], ll.shape[-1], dtype=ll.dtype)
        else:
            h = th[j]
            if dim == 1:
                ll = ll[..., :h.shape[-1]]
            else:
                ll = ll[..., :h.shape[-2], :h.shape[-1]]
        ll = mod((ll, [h]))
    return ll
