import warnings, logging, time
logging.disable(logging.WARNING); warnings.simplefilter('ignore')
import numpy as np, torch, pywt
from pytorch_wavelets import DWT1DForward, DWT1DInverse, DWTForward, DWTInverse, DTCWTForward, DTCWTInverse, ScatLayer, ScatLayerj2
def flat(o):
    if isinstance(o,torch.Tensor): return [o]
    if o is None: return []
    r=[]
    for t in o: r+=flat(t)
    return r
mods={'dwt':lambda: DWTForward(J=2,wave='db3',mode='symmetric'),'dwt1':lambda: DWT1DForward(J=2,wave='db3',mode='zero'),
 'dtcwt':lambda: DTCWTForward(J=2),'scat':lambda: ScatLayer(),'scat2':lambda: ScatLayerj2()}
for name,mk in mods.items():
    x32=torch.randn(2,3,16) if name=='dwt1' else torch.randn(2,3,16,16)
    m=mk()
    for variant in ['f32','double()','built64']:
        try:
            if variant=='f32': mm=m; x=x32
            elif variant=='double()': mm=mk().double(); x=x32.double()
            else:
                torch.set_default_dtype(torch.float64); mm=mk(); torch.set_default_dtype(torch.float32); x=x32.double()
            out=flat(mm(x))
            print(name,variant,set(o.dtype for o in out))
            if variant=='f32': o32=out
            else:
                print('    max err f32 vs f64', max((a.double()-b).abs().max().item() for a,b in zip(o32,out)))
        except Exception as e: print(name,variant,'raise',str(e)[:100])
    # float64 input to float32 module
    try: out=flat(m(x32.double())); print(name,'f64 input into f32 module ->',set(o.dtype for o in out))
    except Exception as e: print(name,'f64 input into f32 module raise',str(e)[:80])
    # non contiguous
    if name!='dwt1':
        xb=torch.randn(2,3,16,32)[...,::2]; xt=torch.randn(2,3,16,16).transpose(2,3)
        for xn in (xb,xt):
            a=flat(m(xn)); b=flat(m(xn.contiguous()))
            print(name,'noncontig equal', all(torch.equal(p,q) for p,q in zip(a,b)), max((p-q).abs().max().item() for p,q in zip(a,b)))
