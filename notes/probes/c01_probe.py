import warnings, time, sys
import numpy as np, torch, pywt
torch.set_default_dtype(torch.float64)
from pytorch_wavelets import DWT1DForward
warnings.simplefilter('ignore')
modes=['zero','symmetric','reflect','periodic','periodization']
t0=time.time(); nconf=0; bad={}
for w in pywt.wavelist(kind='discrete'):
    L=pywt.Wavelet(w).dec_len
    for mode in modes:
        for N in list(range(2,min(2*L+4, 40))):
            X=np.eye(N)[:,None,:]
            try:
                yl,yh=DWT1DForward(J=1,wave=w,mode=mode)(torch.tensor(X))
            except Exception as e:
                bad.setdefault((mode,'raise',type(e).__name__),[]).append((w,L,N)); nconf+=1; continue
            try:
                cA,cD=pywt.dwt(X,w,mode=mode,axis=-1)
            except Exception as e:
                bad.setdefault((mode,'pywtraise',type(e).__name__),[]).append((w,L,N)); nconf+=1; continue
            nconf+=1
            if yl.shape!=cA.shape or np.abs(yl.numpy()-cA).max()>1e-9 or np.abs(yh[0].numpy()-cD).max()>1e-9:
                bad.setdefault((mode,'diff'),[]).append((w,L,N))
print(nconf, time.time()-t0)
for k,v in bad.items():
    print(k, len(v), v[:12])
    # characterise
    print('   N<L:', sum(1 for (w,L,N) in v if N<L), ' N>=L:', sum(1 for (w,L,N) in v if N>=L), [x for x in v if x[2]>=x[1]][:10])
