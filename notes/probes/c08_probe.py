import warnings, logging, time, itertools
logging.disable(logging.WARNING); warnings.simplefilter('ignore')
import numpy as np, torch, torch.nn.functional as F
torch.set_default_dtype(torch.float64)
from pytorch_wavelets import ScatLayer, ScatLayerj2
import dtcwt
def ref_fwd(x, biort, qshift, nlevels):
    # x: (N,C,H,W) numpy -> yl (N,C,h,w), yh list of (N,C,6,h,w) complex; handles bp variants via dtcwt numpy
    t=dtcwt.Transform2d(biort=biort,qshift=qshift)
    N,C=x.shape[:2]; yl=None; yhs=None
    for n in range(N):
        for c in range(C):
            p=t.forward(x[n,c],nlevels=nlevels)
            if yl is None:
                yl=np.zeros((N,C)+p.lowpass.shape); yhs=[np.zeros((N,C,6)+h.shape[:2],dtype=complex) for h in p.highpasses]
            yl[n,c]=p.lowpass
            for j,h in enumerate(p.highpasses): yhs[j][n,c]=h.transpose(2,0,1)
    return yl,yhs
def ref_scat1(x,biort,b,colour):
    yl,yh=ref_fwd(x,biort,'qshift_a' if biort!='near_sym_b_bp' else 'qshift_b_bp',1)
    ll=F.avg_pool2d(torch.tensor(yl),2).numpy()
    if colour:
        m=np.sqrt((np.abs(yh[0])**2).sum(axis=1)+b*b)-b   # (N,6,h,w)
        return np.concatenate([ll,m],axis=1)
    m=np.sqrt(np.abs(yh[0])**2+b*b)-b  # N,C,6,h,w
    m=m.transpose(0,2,1,3,4)  # N,6,C,h,w  band-major
    N,_,C,h,w=m.shape
    return np.concatenate([ll[:,None],m],axis=1).reshape(N,7*C,h,w)
bad={};n=0
for biort in ['near_sym_a','near_sym_b','near_sym_b_bp','antonini','legall']:
  for b in [0.0,1e-3,1e-2,1.0]:
    for colour in (False,True):
      for H,W in [(2,2),(4,6),(8,8),(6,10),(16,12),(5,7),(9,8)]:
        C=3 if colour else 2
        x=torch.randn(2,C,H,W)
        try: z=ScatLayer(biort=biort,magbias=b,combine_colour=colour)(x).numpy()
        except Exception as e: bad.setdefault(('raise',str(e)[:60]),[]).append((biort,b,colour,H,W)); continue
        xe=x.numpy()
        if H%2: xe=np.concatenate([xe,xe[:,:,-1:]],axis=2)
        if W%2: xe=np.concatenate([xe,xe[:,:,:,-1:]],axis=3)
        r=ref_scat1(xe,biort,b,colour); n+=1
        if z.shape!=r.shape: bad.setdefault('shape',[]).append((biort,b,colour,H,W,z.shape,r.shape)); continue
        if np.abs(z-r).max()>1e-9: bad.setdefault('diff',[]).append((biort,b,colour,H,W,float(np.abs(z-r).max())))
        nc = C if not colour else 3
        if (z[:, nc:]< -1e-15).any(): bad.setdefault('neg',[]).append((biort,b,colour,H,W))
print(n)
for k,v in bad.items(): print(k,len(v),v[:8])
# gradient check ScatLayer via finite differences
print('--- grad')
for biort in ['near_sym_a','near_sym_b_bp']:
  for colour in (False,True):
    for b in [1e-2,1.0]:
      for zero in (False,True):
        C=3 if colour else 2
        H,W=6,8
        x=(torch.zeros(1,C,H,W) if zero else torch.randn(1,C,H,W)).requires_grad_()
        lay=ScatLayer(biort=biort,magbias=b,combine_colour=colour)
        z=lay(x); g=torch.randn_like(z)
        gx,=torch.autograd.grad(z,x,g)
        # FD
        h=1e-6; fd=torch.zeros_like(x)
        xf=x.detach()
        for idx in itertools.product(range(C),range(H),range(W)):
            e=torch.zeros_like(xf); e[(0,)+idx]=h
            fd[(0,)+idx]=((lay(xf+e)-lay(xf-e))*g).sum()/(2*h)
        print(biort,colour,b,'zero' if zero else 'rand','finite',bool(torch.isfinite(gx).all()),'err',(gx-fd).abs().max().item())
