import warnings, logging, time, itertools
logging.disable(logging.WARNING); warnings.simplefilter('ignore')
import numpy as np, torch, torch.nn.functional as F
torch.set_default_dtype(torch.float64)
from pytorch_wavelets import ScatLayer, ScatLayerj2
from pytorch_wavelets.scatternet.lowlevel import SmoothMagFn
import dtcwt
def ref_fwd(x, biort, qshift, nlevels):
    t=dtcwt.Transform2d(biort=biort,qshift=qshift)
    N,C=x.shape[:2]; yl=None; yhs=None
    for n in range(N):
        for c in range(C):
            p=t.forward(x[n,c],nlevels=nlevels)
            if yl is None:
                yl=np.zeros((N,C)+p.lowpass.shape); yhs=[np.zeros((N,C,6)+h.shape[:2],dtype=complex) for h in p.highpasses]
            yl[n,c]=p.lowpass
            for j,h in enumerate(p.highpasses): yhs[j][n,c]=h.transpose(2,0,1)
    return yl,yhs
pool=lambda a: F.avg_pool2d(torch.tensor(a),2).numpy()
def mag(z,b): return np.sqrt(np.abs(z)**2+b*b)-b
def ref_scat2(x,biort,qshift,b,colour):
    N,C,H,W=x.shape
    yl,yh=ref_fwd(x,biort,qshift,2)
    S0=pool(yl)
    if not colour:
        M1=mag(yh[0],b).transpose(0,2,1,3,4)  # N,6,C,h,w
        S1_2=mag(yh[1],b).transpose(0,2,1,3,4)
        M1f=M1.reshape(N,6*C,H//2,W//2)
        yl2,yh2=ref_fwd(M1f,biort,qshift,1)
        S1_1=pool(yl2).reshape(N,6,C,H//4,W//4)
        S2_1=mag(yh2[0],b).transpose(0,2,1,3,4).reshape(N,36,C,H//4,W//4)
        z=np.concatenate((S0[:,None],S1_1,S1_2,S2_1),axis=1)
        return z.reshape(N,49*C,H//4,W//4)
    else:
        M1=np.sqrt((np.abs(yh[0])**2).sum(axis=1)+b*b)-b  # N,6,h,w
        M2=np.sqrt((np.abs(yh[1])**2).sum(axis=1)+b*b)-b
        yl2,yh2=ref_fwd(M1,biort,qshift,1)
        S1_1=pool(yl2)
        S2_1=mag(yh2[0],b).transpose(0,2,1,3,4).reshape(N,36,H//4,W//4)
        return np.concatenate((S0,S1_1,M2,S2_1),axis=1)
bad={};n=0
for biort,qshift in [('near_sym_a','qshift_a'),('near_sym_b','qshift_b'),('near_sym_b_bp','qshift_b_bp'),('antonini','qshift_d'),('legall','qshift_06'),('near_sym_a','qshift_c')]:
  for b in [0.0,1e-2,1.0]:
    for colour in (False,True):
      for H,W in [(8,8),(16,8),(8,24),(16,16)]:
        C=3 if colour else 2
        x=torch.randn(1,C,H,W)
        try: z=ScatLayerj2(biort=biort,qshift=qshift,magbias=b,combine_colour=colour)(x).numpy()
        except Exception as e: bad.setdefault(('raise',type(e).__name__,str(e)[:60]),[]).append((biort,qshift,b,colour,H,W)); continue
        r=ref_scat2(x.numpy(),biort,qshift,b,colour); n+=1
        if z.shape!=r.shape: bad.setdefault('shape',[]).append((biort,b,colour,H,W,z.shape,r.shape)); continue
        if np.abs(z-r).max()>1e-9: bad.setdefault('diff',[]).append((biort,qshift,b,colour,H,W,float(np.abs(z-r).max())))
print(n)
for k,v in bad.items(): print(k,len(v),v[:8])
print('--- shapes for other sizes')
for sz in [2,3,7,9,12,15,17,20]:
    try: print(sz, ScatLayerj2()(torch.randn(1,1,sz,sz+1)).shape)
    except Exception as e: print(sz,'raise',type(e).__name__,str(e)[:80])
print('--- grad j2')
for biort,qshift in [('near_sym_a','qshift_a'),('near_sym_b_bp','qshift_b_bp')]:
  for colour in (False,True):
      for zero in (False,True):
        b=1e-2
        C=3 if colour else 1
        H,W=8,8
        x=(torch.zeros(1,C,H,W) if zero else torch.randn(1,C,H,W)).requires_grad_()
        lay=ScatLayerj2(biort=biort,qshift=qshift,magbias=b,combine_colour=colour)
        z=lay(x); g=torch.randn_like(z)
        gx,=torch.autograd.grad(z,x,g)
        h=1e-6; fd=torch.zeros_like(x); xf=x.detach()
        for idx in itertools.product(range(C),range(H),range(W)):
            e=torch.zeros_like(xf); e[(0,)+idx]=h
            fd[(0,)+idx]=((lay(xf+e)-lay(xf-e))*g).sum()/(2*h)
        print(biort,colour,'zero' if zero else 'rand','finite',bool(torch.isfinite(gx).all()),'err',(gx-fd).abs().max().item())
print('--- SmoothMagFn')
for rx,ry in [(1,1),(1,0),(0,1)]:
    x=torch.randn(5,requires_grad=bool(rx)); y=torch.randn(5,requires_grad=bool(ry))
    try:
        r=SmoothMagFn.apply(x,y,0.1); g=torch.autograd.grad(r.sum(),[t for t in (x,y) if t.requires_grad])
        true=[t/torch.sqrt(x**2+y**2+0.01) for t in (x,y) if t.requires_grad]
        print(rx,ry,[ (a-b).abs().max().item() for a,b in zip(g,true)])
    except Exception as e: print(rx,ry,'raise',type(e).__name__,str(e)[:80])
