import warnings, logging, hashlib, sys
logging.disable(logging.WARNING); warnings.simplefilter('ignore')
import torch
torch.set_num_threads(1)
from pytorch_wavelets import DWTForward, DTCWTForward, DTCWTInverse, ScatLayerj2
def flat(o):
    if isinstance(o,torch.Tensor): return [o]
    r=[]
    for t in o: r+=flat(t)
    return r
g=torch.Generator().manual_seed(1)
x=torch.rand(2,3,16,16,generator=g)
if len(sys.argv)>1:  # history first
    DWTForward(J=3,wave='db4',mode='symmetric')(torch.rand(1,1,9,7)); DTCWTForward(J=1,biort='legall')(torch.rand(1,2,6,6).double().float())
h=hashlib.sha1()
for m in [DWTForward(J=2,wave='db2',mode='periodization'),DTCWTForward(J=2),ScatLayerj2()]:
    for t in flat(m(x)): h.update(t.numpy().tobytes())
print(h.hexdigest())
