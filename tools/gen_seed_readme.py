#!/venv/bin/python
"""Regenerates seeded/README.md (the index of seeded property-breaking changes) from the meta.json files."""
import glob
import json
import os

ROOT = os.path.join(os.path.dirname(os.path.abspath(__file__)), '..', 'seeded')
HEAD = """# Seeded property-breaking changes

Each directory holds an independently written change to `pytorch_wavelets` that keeps the repository's 241 stable tests
passing and breaks one of the properties: `patch.diff` (apply with `git -C /repo apply`), `demo.py` (exits 1 with the
change, 0 without: `PYTHONPATH=<tree> /venv/bin/python demo.py <tree>`), `meta.json` (what it needs to manifest, what was
run to confirm it, which quick checks report it).  None of them is ever committed to `/repo`.
To try one: `tools/try_mutant.sh /verif/seeded/<name>/patch.diff <ID>...` (applies, runs `./check <ID> quick`, restores `/repo`).

| change | property | reported by | summary |
|---|---|---|---|
"""
rows = []
for m in sorted(glob.glob(os.path.join(ROOT, '*', 'meta.json'))):
    d = json.load(open(m))
    s = ' '.join(str(d.get('summary', '')).split()).replace('|', '/')
    rows.append('| %s | %s | %s | %s |' % (d['name'], d['property'], ' '.join(d.get('detected_by_quick_checks', [])), s[:260]))
open(os.path.join(ROOT, 'README.md'), 'w').write(HEAD + '\n'.join(rows) + '\n\n%d changes.\n' % len(rows))
print(len(rows), 'changes indexed')
