import warnings, logging
logging.disable(logging.WARNING); warnings.simplefilter('ignore')
import numpy as np, torch, pywt
torch.set_default_dtype(torch.float64)
from pytorch_wavelets import DWT1DForward, DWT1DInverse
modes=['zero','symmetric','reflect','periodic','periodization']
def fwdA(w,mode,N):
    f=DWT1DForward(J=1,wave=w,mode=mode); yl,yh=f(torch.eye(N)[:,None,:]); return torch.cat([yl[:,0],yh[0][:,0]],1).T
def fwdG(w,mode,N):
    f=DWT1DForward(J=1,wave=w,mode=mode)
    A=fwdA(w,mode,N); M=A.shape[0]
    x=torch.zeros(M,1,N,requires_grad=True); yl,yh=f(x); out=torch.cat([yl[:,0],yh[0][:,0]],1)
    out.backward(torch.eye(M)); return x.grad[:,0]   # M x N : row m = J^T e_m
def invS(w,mode,n):  # n = coefficient length per band
    i=DWT1DInverse(wave=w,mode=mode); E=torch.eye(2*n)
    return i((E[:,None,:n],[E[:,None,n:]]))[:,0].T   # P x 2n
def invG(w,mode,n):
    i=DWT1DInverse(wave=w,mode=mode); S=invS(w,mode,n); P=S.shape[0]
    v=torch.zeros(P,1,2*n,requires_grad=True); y=i((v[:,:,:n],[v[:,:,n:]]))[:,0]
    y.backward(torch.eye(P)); return v.grad[:,0]  # P x 2n: row p = J^T e_p = S[p,:]
for w in ['db2','bior2.4']:
  L=pywt.Wavelet(w).dec_len
  for mode in modes:
    r=[]
    for N in (L+2,L+3,2*L+1):
        A=fwdA(w,mode,N); G=fwdG(w,mode,N); Az=fwdA(w,'zero',N)
        e=(G-A).abs().max().item()
        ez=(G-Az[:G.shape[0]]).abs().max().item() if Az.shape==A.shape else float('nan')
        r.append((N,round(e,3),round(ez,3)))
    r2=[]
    for n in (L,L+1):
        S=invS(w,mode,n); G=invG(w,mode,n); e=(G-S).abs().max().item(); r2.append((n,round(e,3)))
    print(w,mode,'fwd (N, |G-A^T|, |G-Azero^T|):',r,' inv (n,|G-S^T|):',r2)
