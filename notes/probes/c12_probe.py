import warnings, itertools, time, logging
logging.disable(logging.WARNING)
import numpy as np, torch
torch.set_default_dtype(torch.float64)
warnings.simplefilter('ignore')
from pytorch_wavelets import DTCWTForward, DTCWTInverse
bad={}; n=0
x=torch.randn(2,3,10,12)
J=2
f0=DTCWTForward(J=J); yl0,yh0=f0(x)   # default (2,-1): (N,C,6,H,W,2)
i0=DTCWTInverse(); xr0=i0((yl0,yh0))
for o,r in itertools.product(range(-6,6),range(-6,6)):
    if o%6==r%6:
        continue
    try:
        f=DTCWTForward(J=J,o_dim=o,ri_dim=r); yl,yh=f(x)
    except Exception as e:
        bad.setdefault(('fwd raise',str(e)[:60]),[]).append((o,r)); continue
    n+=1
    ok=True
    for a,b in zip(yh,yh0):
        # expected: from default (N,C,6,H,W,2) build tensor with orientation at o%6, ri at r%6, other dims in order N,C,H,W
        op,rp=o%6,r%6
        rest=[d for d in range(6) if d not in (op,rp)]
        # source dims: N=0,C=1,O=2,H=3,W=4,RI=5
        perm=[None]*6; perm[op]=2; perm[rp]=5
        for d,s in zip(rest,[0,1,3,4]): perm[d]=s
        exp=b.permute(*perm)
        if a.shape!=exp.shape or (a-exp).abs().max()>0: ok=False
    if not ok: bad.setdefault('fwd layout',[]).append((o,r)); continue
    if (yl-yl0).abs().max()>0: bad.setdefault('low',[]).append((o,r))
    try:
        xr=DTCWTInverse(o_dim=o,ri_dim=r)((yl,yh))
        if (xr-xr0).abs().max()>1e-12: bad.setdefault('inv diff',[]).append((o,r))
    except Exception as e:
        bad.setdefault(('inv raise',str(e)[:60]),[]).append((o,r))
print(n)
for k,v in bad.items(): print(k,len(v),v)
