"""Jacobian extraction: forward operator on the impulse basis, back-propagated operator on the complete
cotangent basis (batched: the base point is replicated, item i of the batch receives the i-th unit cotangent)."""
import numpy as np


def _flatlist(outs):
    return [o for o in outs if o is not None and o.dim() > 0 and o.numel() > 0]


def forward_matrix(f, base, scale=1.0):
    """Columns of the (affine-free) operator around `base` inputs: f is assumed linear, so A[:, i] = f(e_i).
    base: list of tensors with leading batch dim 1 (only shapes are used). Returns (M x P) numpy, band shapes."""
    import torch
    sizes = [int(np.prod(b.shape[1:])) for b in base]
    P = sum(sizes)
    ins = []
    off = 0
    for b, m in zip(base, sizes):
        t = torch.zeros((P,) + tuple(b.shape[1:]), dtype=b.dtype)
        t.reshape(P, -1)[off + torch.arange(m), torch.arange(m)] = scale
        off += m
        ins.append(t)
    with torch.no_grad():
        outs = _flatlist(f(*ins))
    A = np.concatenate([o.reshape(P, -1).numpy() for o in outs], axis=1).T / scale
    # a call on ONE input (batch of one) must reproduce its row of the batched extraction: data-dependent shortcuts that
    # look at a whole tensor (an all-zero band treated as absent, .any(), .sum()) are invisible inside a batch
    off = 0
    for bi, m in enumerate(sizes):
        for i in sorted({off, off + m - 1}):
            one = [t[i:i + 1].clone() for t in ins]
            with torch.no_grad():
                o1 = _flatlist(f(*one))
            a1 = np.concatenate([o.reshape(1, -1).numpy() for o in o1], axis=1)[0] / scale if o1 else np.zeros(0)
            if a1.shape != A[:, i].shape or np.abs(a1 - A[:, i]).max() > 1e-12 * max(1.0, float(np.abs(A).max())):
                raise AssertionError('a call with a batch of one (input %d of band %d alone) differs from the same input inside a batch' % (i - off, bi))
        off += m
    return A, [tuple(o.shape[1:]) for o in outs]


def vjp_matrices(f, base, req, chunk=384):
    """Back-propagate every unit cotangent of every output element.
    base: list of (1,...) tensors (the base point); req: list of bools (which inputs require grad).
    Returns (G, M, info): G[i] = (P_i x M) numpy matrix for every input with req[i] (None when autograd returned no
    gradient for it), M the number of output elements."""
    import torch
    with torch.no_grad():
        o1 = _flatlist(f(*[b.clone() for b in base]))
    osz = [int(np.prod(o.shape[1:])) for o in o1]
    M = sum(osz)
    sizes = [int(np.prod(b.shape[1:])) for b in base]
    G = [np.zeros((sizes[i], M)) if req[i] else None for i in range(len(base))]
    missing = [False] * len(base)
    for r0 in range(0, M, chunk):
        r1 = min(M, r0 + chunk)
        n = r1 - r0
        ins = []
        for b, rq in zip(base, req):
            t = b.repeat((n,) + (1,) * (b.dim() - 1)).clone()
            t.requires_grad_(bool(rq))
            ins.append(t)
        outs = _flatlist(f(*ins))
        cots = []
        off = 0
        for o, m in zip(outs, osz):
            c = torch.zeros(o.shape, dtype=o.dtype)      # contiguous, so the reshape below is a view
            lo, hi = max(r0, off), min(r1, off + m)
            if hi > lo:
                rows = torch.arange(lo, hi)
                c.reshape(n, -1)[rows - r0, rows - off] = 1.0
            off += m
            cots.append(c)
        wrt = [t for t, rq in zip(ins, req) if rq]
        live = [(o, c) for o, c in zip(outs, cots) if o.requires_grad]
        if not live:
            grads = [None] * len(wrt)
        else:
            first = r0 == 0
            grads = torch.autograd.grad([o for o, _ in live], wrt, grad_outputs=[c for _, c in live], allow_unused=True, retain_graph=first)
            if first:
                # "for every cotangent": pulling a second cotangent back through the SAME graph must give the same map
                again = torch.autograd.grad([o for o, _ in live], wrt, grad_outputs=[c for _, c in live], allow_unused=True)
                for g1, g2 in zip(grads, again):
                    if (g1 is None) != (g2 is None) or (g1 is not None and not torch.equal(g1, g2)):
                        raise AssertionError('second backward pass through the same graph differs from the first')
        k = 0
        for i, rq in enumerate(req):
            if not rq:
                continue
            g = grads[k]
            k += 1
            if g is None:
                missing[i] = True
            else:
                G[i][:, r0:r1] = g.reshape(n, -1).numpy().T
    for i in range(len(base)):
        if missing[i]:
            G[i] = None
    if not any(missing):
        _extra_cotangents(f, base, req, osz, G, M)
    return G, M


def _extra_cotangents(f, base, req, osz, G, M):
    """The backward map is linear in the cotangent and acts per batch item: (1) cotangents whose entries cancel exactly
    (e_i - e_j, a +-1 checkerboard per output band) must give the corresponding combinations of the extracted columns;
    (2) one cotangent pulled back alone (batch of one) must reproduce its column."""
    import torch
    rows = []
    off = 0
    for m in osz:
        if m >= 2:
            v = np.zeros(M)
            v[off] = 1.0
            v[off + m - 1] = -1.0
            rows.append(v)
            c = np.zeros(M)
            c[off:off + m] = (-1.0) ** np.arange(m)
            if m % 2 == 0:
                rows.append(c)
        off += m
    singles = sorted({0, M - 1} | {sum(osz[:k]) for k in range(len(osz))})
    Gall = np.concatenate([g for g, rq in zip(G, req) if rq], axis=0)          # (sum P_i, M)
    scale = max(1.0, float(np.abs(Gall).max()))

    def pull(cvecs):
        n = len(cvecs)
        ins = []
        for b, rq in zip(base, req):
            t = b.repeat((n,) + (1,) * (b.dim() - 1)).clone()
            t.requires_grad_(bool(rq))
            ins.append(t)
        outs = _flatlist(f(*ins))
        cots = []
        o0 = 0
        for o, m in zip(outs, osz):
            c = torch.zeros(o.shape, dtype=o.dtype)
            c.reshape(n, -1)[:] = torch.as_tensor(np.stack([cv[o0:o0 + m] for cv in cvecs])).to(o.dtype)
            o0 += m
            cots.append(c)
        live = [(o, c) for o, c in zip(outs, cots) if o.requires_grad]
        gs = torch.autograd.grad([o for o, _ in live], [t for t, rq in zip(ins, req) if rq], grad_outputs=[c for _, c in live], allow_unused=True)
        return np.concatenate([np.zeros((n, int(np.prod(b.shape[1:])))) if g is None else g.reshape(n, -1).numpy()
                               for g, b in zip(gs, [b for b, rq in zip(base, req) if rq])], axis=1).T      # (sum P_i, n)
    if rows:
        got = pull(rows)
        exp = Gall @ np.stack(rows).T
        if np.abs(got - exp).max() > 1e-11 * scale * max(1, max(osz)):
            raise AssertionError('back-propagation is not linear in the cotangent: a cotangent whose entries cancel (e_i - e_j / checkerboard) does not give the combination of the unit-cotangent gradients')
    for r in singles:
        v = np.zeros(M)
        v[r] = 1.0
        got = pull([v])
        if np.abs(got[:, 0] - Gall[:, r]).max() > 1e-12 * scale:
            raise AssertionError('a cotangent pulled back alone (batch of one, output element %d) differs from the same cotangent inside a batch' % r)


def vjp_single(f, base, req, rows):
    """Validation of the batched trick: one autograd.grad per listed output element, batch size 1."""
    import torch
    out = {}
    for r in rows:
        ins = [b.clone().requires_grad_(bool(rq)) for b, rq in zip(base, req)]
        outs = _flatlist(f(*ins))
        osz = [int(np.prod(o.shape[1:])) for o in outs]
        cots = []
        off = 0
        for o, m in zip(outs, osz):
            c = torch.zeros(o.shape, dtype=o.dtype)      # contiguous, so the reshape below is a view
            if off <= r < off + m:
                c.reshape(1, -1)[0, r - off] = 1.0
            off += m
            cots.append(c)
        wrt = [t for t, rq in zip(ins, req) if rq]
        live = [(o, c) for o, c in zip(outs, cots) if o.requires_grad]
        grads = torch.autograd.grad([o for o, _ in live], wrt, grad_outputs=[c for _, c in live], allow_unused=True)
        out[r] = [None if g is None else g.reshape(-1).numpy() for g in grads]
    return out
