"""C09 - scattering layers (and SmoothMagFn) back-propagate the true gradient, finite everywhere (magbias > 0)."""
import itertools

import numpy as np

from .. import common
from ..common import Res

PID = 'C09'
LEVEL = 'exploration'
RULE = ('layer configuration lattice (biort incl. near_sym_b_bp, qshift incl. qshift_b_bp, magbias in {1e-3,1e-2,1}, combine_colour off with C in '
        '{1,2} / on with C=3, sizes incl. H != W) x base points (the zero image, constant images +-1, 1-sparse images over a position/value '
        'alphabet, a dense table) x the COMPLETE cotangent basis of the output: the back-propagated Jacobian-transpose (batched autograd) is '
        'compared with 4th-order central differences of the layer\'s own float64 forward (no code shared with the hand-written backward), '
        'tolerance 1e-6*scale; every gradient entry must be finite. SmoothMagFn: all (x,y) in V x V, V = {0,+-1e-6,+-1,+-1e6}, b in '
        '{1e-3,1e-2,1}, every subset of {x,y} requiring grad, closed form x/r, y/r. distinct_nontrivial = distinct non-zero Jacobians')
ASSUMPTIONS = ['bounded set of base points (deviation-bounded exploration of a non-linear function)',
               'finite differences of the forward are the oracle; C08 decides the forward itself']
CHUNK = 1
MAGB = [1e-3, 1e-2, 1.0]


def plan(tier):
    q = tier == 'quick'
    items = [{'kind': 'smoothmag'}]
    b1 = ['near_sym_a', 'near_sym_b_bp', 'antonini'] if q else ['near_sym_a', 'near_sym_b', 'near_sym_b_bp', 'antonini', 'legall']
    s1 = [(2, 2), (4, 4), (4, 6), (6, 4), (8, 8), (5, 4), (4, 7), (3, 3)] if q else [(2, 2), (4, 4), (4, 6), (6, 4), (8, 8), (6, 10), (12, 12), (5, 7)]
    for b in b1:
        for (h, w) in s1:
            for (colour, C) in ((False, 1), (False, 2), (True, 3)):
                for mb in MAGB:
                    items.append({'kind': 'layer', 'layer': 1, 'biort': b, 'qshift': None, 'h': h, 'w': w, 'colour': colour, 'C': C, 'magbias': mb})
                if (h, w) in ((4, 4), (4, 6)):
                    items.append({'kind': 'layer', 'layer': 1, 'biort': b, 'qshift': None, 'h': h, 'w': w, 'colour': colour, 'C': C, 'magbias': 1e-7, 'tiny': True})
                if (h, w) in ((4, 6), (8, 8), (6, 4)):
                    items.append({'kind': 'layer', 'layer': 1, 'biort': b, 'qshift': None, 'h': h, 'w': w, 'colour': colour, 'C': C, 'magbias': 1e-2, 'mode': 'zero'})
    p2 = [('near_sym_a', 'qshift_a'), ('near_sym_b_bp', 'qshift_b_bp'), ('antonini', 'qshift_c')] if q else \
        [('near_sym_a', 'qshift_a'), ('near_sym_b_bp', 'qshift_b_bp'), ('antonini', 'qshift_c'), ('legall', 'qshift_06'), ('near_sym_b', 'qshift_d'), ('near_sym_a', 'qshift_b')]
    s2 = [(8, 8), (8, 16)] if q else [(8, 8), (8, 16), (16, 8), (16, 16)]
    for (b, qs) in p2:
        for (h, w) in s2:
            for (colour, C) in ((False, 1), (False, 2), (True, 3)):
                for mb in (MAGB if not q else [1e-2, 1.0]):
                    if q and (h, w) == (8, 16) and C == 2:
                        continue
                    items.append({'kind': 'layer', 'layer': 2, 'biort': b, 'qshift': qs, 'h': h, 'w': w, 'colour': colour, 'C': C, 'magbias': mb})
    return items


def bounds(tier):
    return {'magbias': MAGB, 'base_points': 'zero, const +-1, 1-sparse (positions corners/centre/edge x values {1,-1,1e-3,1e3}; all positions when C*H*W <= 16), dense table of 3',
            'fd': '4th-order central differences, h = min(1e-3, bias/100)'}


def required_regimes(tier):
    return {'layer:1', 'layer:2', 'bp', 'colour', 'C:2', 'base:zero', 'base:const', 'base:sparse', 'base:dense', 'size:h!=w', 'smoothmag', 'smoothmag:only_y', 'mode:zero', 'input:noncontiguous', 'size:odd', 'cotangent:single', 'output:inplace_before_backward', 'tiny_bias'}


def _bases(C, H, W):
    P = C * H * W
    out = [('base:zero', np.zeros(P)), ('base:const', np.ones(P)), ('base:const', -np.ones(P))]
    if P <= 16:
        pos = list(range(P))
    else:
        pos = sorted({0, W - 1, (H - 1) * W, H * W - 1, (H // 2) * W + W // 2, W // 2, P - 1 - W // 2, P // 2})
    for i, p in enumerate(pos):
        for v in ((1.0, -1.0, 1e-3, 1e3) if P <= 16 else ((1.0, 1e3) if i % 2 == 0 else (-1.0, 1e-3))):
            e = np.zeros(P)
            e[p] = v
            out.append(('base:sparse', e))
    ar = np.arange(P)
    out += [('base:dense', np.cos(1.3 * ar + 0.4)), ('base:dense', (-1.0) ** ar * (1 + ar % 3)), ('base:dense', 10 * np.sin(0.37 * ar * ar) + 0.5)]
    return out


def _smoothmag(res):
    import torch
    from pytorch_wavelets.scatternet.lowlevel import SmoothMagFn
    V = [0.0, 1e-6, -1e-6, 1.0, -1.0, 1e6, -1e6]
    res.regime('smoothmag')
    res.state('smoothmag')
    for b in MAGB:
        for (rx, ry) in ((True, True), (True, False), (False, True)):
            cfg = {'fn': 'SmoothMagFn', 'b': b, 'x_requires_grad': rx, 'y_requires_grad': ry}
            xs = torch.tensor([a for a in V for _ in V], dtype=torch.float64, requires_grad=rx)
            ys = torch.tensor([c for _ in V for c in V], dtype=torch.float64, requires_grad=ry)
            res['evals'] += len(V) ** 2
            if ry and not rx:
                res.regime('smoothmag:only_y')
            try:
                r = SmoothMagFn.apply(xs, ys, b)
                g = torch.autograd.grad(r.sum(), [t for t, k in ((xs, rx), (ys, ry)) if k], allow_unused=True)
            except Exception as e:
                res.violation('smoothmag_gradient', cfg, {'kind': 'raise', 'exc': repr(e)[:200]}, ['smoothmag'])
                continue
            res['impl_calls'] += 1
            xn, yn = xs.detach().numpy(), ys.detach().numpy()
            rr = np.sqrt(xn ** 2 + yn ** 2 + b * b)
            val = r.detach().numpy()
            if np.abs(val - (rr - b)).max() > 1e-9 * max(1.0, np.abs(rr).max()):
                res.violation('smoothmag_gradient', cfg, {'kind': 'forward_value'}, ['smoothmag'])
            exp = [e for e, k in ((xn / rr, rx), (yn / rr, ry)) if k]
            for gi, ei, nm in zip(g, exp, [n for n, k in (('x', rx), ('y', ry)) if k]):
                if gi is None:
                    res.violation('smoothmag_gradient', dict(cfg, wrt=nm), {'kind': 'no_gradient'}, ['smoothmag'])
                elif not np.isfinite(gi.numpy()).all() or np.abs(gi.numpy() - ei).max() > 1e-9:
                    res.violation('smoothmag_gradient', dict(cfg, wrt=nm), {'kind': 'value', 'maxdev': float(np.abs(gi.numpy() - ei).max())}, ['smoothmag'])
            res['ophashes'].append(common.sha(cfg))
    res.sample({'fn': 'SmoothMagFn', 'points': len(V) ** 2, 'b': MAGB, 'grad_subsets': [['x', 'y'], ['x'], ['y']]})
    return res


def run(item):
    common.init_worker()
    import torch
    res = Res()
    if item['kind'] == 'smoothmag':
        return _smoothmag(res)
    from pytorch_wavelets import ScatLayer, ScatLayerj2
    layer, b, qs, H, W, colour, C, mb = (item[k] for k in ('layer', 'biort', 'qshift', 'h', 'w', 'colour', 'C', 'magbias'))
    tags = ['layer:%d' % layer] + (['bp'] if b.endswith('_bp') else []) + (['colour'] if colour else []) + (['C:2'] if C == 2 else []) + \
        (['size:h!=w'] if H != W else []) + (['size:odd'] if (H % 2 or W % 2) else []) + (['mode:zero'] if item.get('mode') == 'zero' else []) + (['tiny_bias'] if item.get('tiny') else [])
    mod = ScatLayer(biort=b, magbias=mb, combine_colour=colour, mode=item.get('mode', 'symmetric')) if layer == 1 else ScatLayerj2(biort=b, qshift=qs, magbias=mb, combine_colour=colour)
    P = C * H * W
    res.state(common.sha(item))

    def fwd(V):
        with torch.no_grad():
            Z = mod(torch.as_tensor(V.reshape(-1, C, H, W)))
        return Z.reshape(Z.shape[0], -1).numpy()

    done = set()
    bases = _bases(C, H, W)
    if item.get('tiny'):
        # a bias far below the usual ones with inputs of the same tiny magnitude: the derivative re/r is still O(1)
        bases = [(k_, 1e-7 * x_ / max(1.0, float(np.abs(x_).max()))) for k_, x_ in bases if k_ in ('base:dense', 'base:const')]
    for kind, x0 in bases:
        cfg = dict(item, base_kind=kind, base_nonzeros=[[int(i), float(x0[i])] for i in np.flatnonzero(x0)[:3]] + ([['...', int(np.count_nonzero(x0))]] if np.count_nonzero(x0) > 3 else []))
        del cfg['kind']
        h = min(1e-3, mb / 100.0)        # small against the bias whatever the magnitude of the base point (curvature ~ 1/bias where a band is ~0)
        E = np.eye(P)
        try:
            Jfd = (-fwd(x0 + 2 * h * E) + 8 * fwd(x0 + h * E) - 8 * fwd(x0 - h * E) + fwd(x0 - 2 * h * E)) / (12 * h)      # (P, M)
        except Exception as e:
            res.violation('scat_gradient', cfg, {'kind': 'raise_forward', 'exc': repr(e)[:200]}, tags)
            break
        M = Jfd.shape[1]
        G = np.zeros((P, M))
        try:
            for r0 in range(0, M, 512):
                n = min(M, r0 + 512) - r0
                X = torch.as_tensor(np.repeat(x0[None, :], n, axis=0).reshape(n, C, H, W)).clone().requires_grad_(True)
                Z = mod(X)
                cot = torch.zeros(Z.shape, dtype=Z.dtype)
                if kind == 'base:dense' and r0 == 0 and 'inplace' not in done:
                    # the output scaled IN PLACE before back-propagation: the gradient is the scaled gradient (or autograd must refuse)
                    done.add('inplace')
                    cn_ = torch.as_tensor(np.cos(0.3 * np.arange(Z[:1].numel())).reshape(Z[:1].shape))
                    Xa = X.detach()[:1].clone().requires_grad_(True)
                    (ga,) = torch.autograd.grad([mod(Xa) * 3.0], [Xa], grad_outputs=[cn_])
                    Xb = X.detach()[:1].clone().requires_grad_(True)
                    try:
                        zb = mod(Xb)
                        zb.mul_(3.0)
                        (gb,) = torch.autograd.grad([zb], [Xb], grad_outputs=[cn_])
                        res.regime('output:inplace_before_backward')
                        if float((ga - gb).abs().max()) > 1e-9 * max(1.0, float(ga.abs().max())):
                            res.violation('scat_gradient', dict(cfg, output_modified_in_place=True), {'kind': 'value', 'maxdev': float((ga - gb).abs().max())}, tags)
                    except RuntimeError:
                        res.regime('output:inplace_before_backward')      # autograd's version check refusing is acceptable
                if kind == 'base:dense' and r0 == 0 and 'noncontig' not in done:
                    # the same base point as a non-contiguous (NHWC-permuted) tensor that requires grad: same gradient
                    done.add('noncontig')
                    Xn = X.detach()[:1].permute(0, 2, 3, 1).contiguous().permute(0, 3, 1, 2).requires_grad_(True)
                    Zn = mod(Xn)
                    cn = torch.as_tensor(np.cos(0.3 * np.arange(Zn.numel())).reshape(Zn.shape))
                    (gn,) = torch.autograd.grad([Zn], [Xn], grad_outputs=[cn])
                    Xc = X.detach()[:1].clone().requires_grad_(True)
                    (gc,) = torch.autograd.grad([mod(Xc)], [Xc], grad_outputs=[cn])
                    res.regime('input:noncontiguous')
                    res['evals'] += 1
                    if float((gn - gc).abs().max()) > 1e-9 * max(1.0, float(gc.abs().max())):
                        res.violation('scat_gradient', dict(cfg, input_layout='nhwc_permuted'), {'kind': 'value', 'maxdev': float((gn - gc).abs().max())}, tags)
                cot.reshape(n, -1)[torch.arange(n), torch.arange(r0, r0 + n)] = 1.0
                (g,) = torch.autograd.grad([Z], [X], grad_outputs=[cot])
                G[:, r0:r0 + n] = g.reshape(n, -1).numpy().T
        except Exception as e:
            res.violation('scat_gradient', cfg, {'kind': 'raise', 'exc': repr(e)[:200]}, tags)
            break
        # single cotangents pulled back alone (batch of one): shortcuts that inspect a whole cotangent tensor are invisible in a batch
        try:
            for r in sorted({0, M // 7 if layer == 1 else M // 49, M - 1}):
                X1 = torch.as_tensor(x0.reshape(1, C, H, W)).clone().requires_grad_(True)
                Z1 = mod(X1)
                c1 = torch.zeros(Z1.shape, dtype=Z1.dtype)
                c1.reshape(-1)[r] = 1.0
                (g1,) = torch.autograd.grad([Z1], [X1], grad_outputs=[c1])
                if float(np.abs(g1.reshape(-1).numpy() - G[:, r]).max()) > 1e-10 * max(1.0, float(np.abs(G[:, r]).max())):
                    res.violation('scat_gradient', dict(cfg, single_cotangent=int(r)), {'kind': 'value', 'what': 'cotangent pulled back alone differs from the same cotangent inside a batch',
                                                                                           'maxdev': float(np.abs(g1.reshape(-1).numpy() - G[:, r]).max())}, tags)
                    break
            res.regime('cotangent:single')
        except Exception as e:
            res.violation('scat_gradient', dict(cfg, single_cotangent=True), {'kind': 'raise', 'exc': repr(e)[:200]}, tags)
        res['impl_calls'] += 5
        res['evals'] += M + 4 * P
        res.regime(kind, *tags)
        if not np.isfinite(G).all():
            w = np.argwhere(~np.isfinite(G))[0]
            res.violation('scat_gradient', cfg, {'kind': 'nonfinite', 'input_index': int(w[0]), 'output_index': int(w[1])}, tags)
            continue
        scale = max(1.0, float(np.abs(Jfd).max()))
        D = np.abs(G - Jfd)
        if D.max() > 1e-6 * scale:
            w = np.unravel_index(int(D.argmax()), D.shape)
            res.violation('scat_gradient', cfg, {'kind': 'value', 'maxdev': float(D.max()), 'tol': 1e-6 * scale, 'input_index': int(w[0]), 'output_index': int(w[1]),
                                                 'backprop': float(G[w]), 'finite_difference': float(Jfd[w]), 'n_bad': int((D > 1e-6 * scale).sum())}, tags)
        res.op(G)
        if kind == 'base:zero' and (H, W) in ((4, 6), (8, 16)) and C == 1 and mb == 1e-2:
            res.sample({'config': cfg, 'inputs': P, 'cotangents': int(M), 'fd_step': h})
    return res
