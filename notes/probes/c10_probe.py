import warnings, time, sys
import numpy as np, torch, pywt
torch.set_default_dtype(torch.float64)
from pytorch_wavelets import DWT1DForward, DWT1DInverse, DWTForward, DWTInverse
import pytorch_wavelets.dwt.lowlevel as ll
warnings.simplefilter('ignore')
modes=['zero','symmetric','reflect','periodic','periodization']
bad={}
# C10 1-D: arbitrary pyramids (basis) vs pywt.waverec
for w in ['db1','db2','db3','bior2.4','sym4','bior1.3','bior3.1','rbio3.3','dmey']:
    L=pywt.Wavelet(w).dec_len
    for mode in modes:
        for N in range(2,min(2*L+3,30)):
            for J in (1,2,3):
                try: co=pywt.wavedec(np.zeros(N),w,mode=mode,level=J)
                except ValueError: continue
                shapes=[c.shape[0] for c in co]  # cA_J, cD_J,...,cD_1
                M=sum(shapes)
                E=np.eye(M)
                parts=np.split(E,np.cumsum(shapes)[:-1],axis=1)
                ref=pywt.waverec([p for p in parts],w,mode=mode,axis=-1)
                yl=torch.tensor(parts[0])[:,None,:]; yh=[torch.tensor(p)[:,None,:] for p in parts[1:]][::-1]
                try: out=DWT1DInverse(wave=w,mode=mode)((yl,yh))[:,0].numpy()
                except Exception as e:
                    bad.setdefault((mode,'raise',str(e)[:50]),[]).append((w,L,N,J)); continue
                if out.shape!=ref.shape: bad.setdefault((mode,'shape'),[]).append((w,L,N,J,out.shape,ref.shape)); continue
                err=np.abs(out-ref).max()
                if err>1e-9: bad.setdefault((mode,'diff'),[]).append((w,L,N,J,round(float(err),4)))
for k,v in bad.items():
    print(k,len(v),v[:6]); print('    not-short:',[x for x in v if x[2]+x[2]%2>=x[1]*2**(x[3]-1)][:8])
# None handling
print('--- None handling 2D')
for mode in modes:
  for dt in (torch.float64,torch.float32):
    for size in [(8,8),(9,7)]:
        x=torch.randn(1,2,*size,dtype=dt)
        f=DWTForward(J=2,wave='db2',mode=mode).to(dt); i=DWTInverse(wave='db2',mode=mode).to(dt)
        yl,yh=f(x)
        for k in (0,1):
            yh2=list(yh); yh2[k]=None
            yh3=list(yh); yh3[k]=torch.zeros_like(yh[k])
            try:
                a=i((yl,yh2)); b=i((yl,yh3))
                print(mode,dt,size,k,'ok' if a.shape==b.shape and (a-b).abs().max()<1e-5 else ('DIFF',a.shape,b.shape), a.dtype)
            except Exception as e: print(mode,dt,size,k,'raise',str(e)[:70])
