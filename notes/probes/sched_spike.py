# feasibility spike: baton scheduler at line granularity in library frames, 2 threads, preemption bound
import sys, threading, time, warnings, logging, hashlib
logging.disable(logging.WARNING); warnings.simplefilter('ignore')
import torch
torch.set_num_threads(1)
from pytorch_wavelets import DWTForward, DTCWTForward
import pytorch_wavelets.dtcwt.coeffs as coeffs
LIB='/repo/pytorch_wavelets'
class Sched:
    def __init__(s, bodies, prefix):
        s.bodies=bodies; s.prefix=list(prefix); s.choices=[]; s.points=[]  # points: (running, enabled list)
        s.sems=[threading.Semaphore(0) for _ in bodies]; s.done=[False]*len(bodies); s.cur=None
        s.results=[None]*len(bodies); s.main=threading.Semaphore(0); s.err=None
    def tracer(s, tid):
        def tr(frame,event,arg):
            if not frame.f_code.co_filename.startswith(LIB): return None
            def local(frame,event,arg):
                if event=='line': s.point(tid)
                return local
            return local
        return tr
    def point(s, tid):
        enabled=[t for t in range(len(s.bodies)) if not s.done[t]]
        order=[tid]+[t for t in enabled if t!=tid]
        i=len(s.choices)
        c = s.prefix[i] if i<len(s.prefix) else 0
        s.points.append((tid,tuple(order))); s.choices.append(c)
        nxt=order[c]
        if nxt!=tid:
            s.sems[nxt].release(); s.sems[tid].acquire()
    def run_thread(s, tid):
        s.sems[tid].acquire()
        sys.settrace(s.tracer(tid))
        try: s.results[tid]=s.bodies[tid]()
        except Exception as e: s.results[tid]=('EXC',repr(e))
        finally:
            sys.settrace(None); s.done[tid]=True
            rest=[t for t in range(len(s.bodies)) if not s.done[t]]
            if rest: s.sems[rest[0]].release()
            else: s.main.release()
    def run(s):
        ths=[threading.Thread(target=s.run_thread,args=(t,)) for t in range(len(s.bodies))]
        for t in ths: t.start()
        s.sems[0].release(); s.main.acquire()
        for t in ths: t.join()
        return s
def preemptions(points,choices,upto):
    return sum(1 for (p,c) in list(zip(points,choices))[:upto] if c!=0)
def explore(mk_bodies, bound, check):
    n=0; stack=[[]]
    while stack:
        prefix=stack.pop()
        s=Sched(mk_bodies(),prefix).run(); n+=1
        check(s)
        for i in range(len(prefix),len(s.points)):
            if preemptions(s.points,s.choices,i)+1>bound: continue
            for alt in range(1,len(s.points[i][1])):
                stack.append(s.choices[:i]+[alt])
    return n
x=torch.arange(16.).reshape(1,1,4,4); y=torch.ones(1,1,4,4)
d=DWTForward(J=1,wave='db2',mode='periodization')
refx=d(x); refy=d(y)
def h(o): return hashlib.sha1(b''.join(t.numpy().tobytes() for t in ([o[0]]+list(o[1])))).hexdigest()
outcomes=set()
def mk(): return [lambda: d(x), lambda: d(y)]
def chk(s):
    assert h(s.results[0])==h(refx) and h(s.results[1])==h(refy), s.choices
    outcomes.add((h(s.results[0]),h(s.results[1])))
for b in (0,1,2):
    t0=time.time(); n=explore(mk,b,chk); print('bound',b,'schedules',n,'sec',round(time.time()-t0,2))
# coeff cache race
def mk2():
    coeffs.COEFF_CACHE.clear()
    return [lambda: DTCWTForward(J=1).h0o.clone(), lambda: DTCWTForward(J=1,biort='near_sym_a',qshift='qshift_b').h0o.clone()]
ref=DTCWTForward(J=1).h0o.clone()
def chk2(s): assert torch.equal(s.results[0],ref) and torch.equal(s.results[1],ref), (s.results,s.choices)
for b in (0,1):
    t0=time.time(); n=explore(mk2,b,chk2); print('cache: bound',b,'schedules',n,'sec',round(time.time()-t0,2))
