# Spike: does "tile the signal until it is at least as long as the filter" repair periodization for short levels?
import warnings, logging
logging.disable(logging.WARNING); warnings.simplefilter('ignore')
import numpy as np, torch, pywt
torch.set_default_dtype(torch.float64)
import pytorch_wavelets.dwt.lowlevel as ll
from pytorch_wavelets import DWT1DForward, DWT1DInverse
orig_afb1d, orig_sfb1d = ll.afb1d, ll.sfb1d
def afb1d(x,h0,h1,mode='zero',dim=-1):
    if mode in ('per','periodization'):
        d=dim%4; L=h0.numel(); N=x.shape[d]
        if N%2==1:
            x=torch.cat((x,x.narrow(d,N-1,1)),dim=d); N+=1
        if N<L:
            reps=-(-L//N); r=[1,1,1,1]; r[d]=reps
            out=orig_afb1d(x.repeat(*r),h0,h1,mode=mode,dim=dim)
            return out.narrow(d,0,N//2)
    return orig_afb1d(x,h0,h1,mode=mode,dim=dim)
def sfb1d(lo,hi,g0,g1,mode='zero',dim=-1):
    if mode in ('per','periodization'):
        d=dim%4; L=g0.numel(); N=2*lo.shape[d]
        if N<L:
            reps=-(-L//N); r=[1,1,1,1]; r[d]=reps
            out=orig_sfb1d(lo.repeat(*r),hi.repeat(*r),g0,g1,mode=mode,dim=dim)
            return out.narrow(d,0,N)
    return orig_sfb1d(lo,hi,g0,g1,mode=mode,dim=dim)
ll.afb1d=afb1d; ll.sfb1d=sfb1d
bad=[];n=0
for w in pywt.wavelist(kind='discrete'):
    L=pywt.Wavelet(w).dec_len
    for N in range(2,min(2*L+4,40)):
        for J in (1,2,3):
            X=np.eye(N)[:,None,:]
            yl,yh=DWT1DForward(J=J,wave=w,mode='periodization')(torch.tensor(X))
            co=pywt.wavedec(X,w,mode='periodization',level=J,axis=-1); n+=1
            ok = yl.shape==co[0].shape and np.abs(yl.numpy()-co[0]).max()<1e-9 and all(np.abs(yh[j].numpy()-co[J-j]).max()<1e-9 for j in range(J))
            xr=DWT1DInverse(wave=w,mode='periodization')((yl,yh)).numpy(); xp=pywt.waverec(co,w,mode='periodization',axis=-1)
            ok2 = xr.shape==xp.shape and np.abs(xr-xp).max()<1e-8
            if not (ok and ok2): bad.append((w,L,N,J,ok,ok2))
print(n,len(bad),bad[:10])
