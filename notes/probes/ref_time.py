import warnings, logging, time
logging.disable(logging.WARNING); warnings.simplefilter('ignore')
import numpy as np, torch, dtcwt
torch.set_default_dtype(torch.float64); torch.set_num_threads(1)
from pytorch_wavelets import DTCWTForward
for b,q in [('near_sym_a','qshift_a'),('near_sym_b','qshift_d')]:
  ref=dtcwt.Transform2d(biort=b,qshift=q)
  for (H,W,J) in [(8,8,2),(16,16,3),(32,32,3),(64,64,3),(80,3,3)]:
    x=np.random.randn(H,W)
    t0=time.time(); [ref.forward(x,nlevels=J) for _ in range(20)]; t1=time.time()
    f=DTCWTForward(biort=b,qshift=q,J=J); E=torch.eye(H*W).reshape(H*W,1,H,W)
    t2=time.time(); f(E); t3=time.time()
    print(b,q,H,W,J,'ref ms/call',round((t1-t0)*50,2),'lib batched basis s',round(t3-t2,3),'ref basis est s',round((t1-t0)/20*H*W,2))
# closure: J up to 7 from small sizes, shapes of lowpass
f=lambda J: DTCWTForward(J=J)
for (H,W) in [(2,2),(3,5),(6,10),(13,18)]:
    shapes=[]
    for J in range(1,7):
        yl,yh=DTCWTForward(J=J)(torch.zeros(1,1,H,W)); p=dtcwt.Transform2d().forward(np.zeros((H,W)),nlevels=J)
        shapes.append((tuple(yl.shape[2:]),p.lowpass.shape,[tuple(h.shape[3:5]) for h in yh]==[h.shape[:2] for h in p.highpasses]))
    print((H,W),shapes)
