"""Shared helpers: worker initialisation, impulse bases, operator extraction, hashing, tolerances."""
import hashlib
import io
import json
import logging
import os
import sys
import warnings

import numpy as np

REPO = os.environ.get('VERIF_REPO', '/repo')
TOL = 1e-9          # DESIGN 2.4: three orders above observed rounding, >5 below any indexing mistake
_inited = False


def init_worker():
    """Called once in every process that touches the library (workers and --replay)."""
    global _inited
    if _inited:
        return
    warnings.simplefilter('ignore')
    logging.disable(logging.WARNING)
    import torch
    torch.set_num_threads(1)
    # the library is imported under torch's stock default dtype (float32), as in a user's process; only afterwards is the
    # default switched to float64 so that modules built by the checks carry float64 filters (anything the library creates at
    # import time or without an explicit dtype then shows up as a precision / dtype discrepancy)
    import pytorch_wavelets
    import pytorch_wavelets.dwt.transform2d, pytorch_wavelets.dwt.lowlevel, pytorch_wavelets.dtcwt.lowlevel      # noqa
    import pytorch_wavelets.dtcwt.transform_funcs, pytorch_wavelets.scatternet.lowlevel                           # noqa
    torch.set_default_dtype(torch.float64)
    p = os.path.realpath(pytorch_wavelets.__file__)
    if not p.startswith(os.path.realpath(REPO) + os.sep):
        raise SystemExit("BROKEN: pytorch_wavelets imported from %s, expected under %s" % (p, REPO))
    _inited = True


def T(a, dtype=None):
    import torch
    return torch.tensor(np.asarray(a), dtype=dtype or torch.float64)


def eye_batch(shape, dtype=np.float64):
    """All unit impulses of `shape`, as an array (P, 1) + shape."""
    P = int(np.prod(shape))
    return np.eye(P, dtype=dtype).reshape((P, 1) + tuple(shape))


def flat(bands):
    """bands: list of arrays each with leading dim P -> (matrix M x P, list of band shapes)."""
    cols = []
    shapes = []
    for b in bands:
        b = np.asarray(b)
        shapes.append(tuple(b.shape[1:]))
        cols.append(b.reshape(b.shape[0], -1))
    return np.concatenate(cols, axis=1).T, shapes


def np_(t):
    return t.detach().cpu().numpy()


def ophash(A):
    """Hash of an operator rounded to 1e-10 of its scale (distinct-operator bookkeeping only)."""
    A = np.asarray(A, dtype=np.float64)
    s = float(np.abs(A).max()) if A.size else 0.0
    if s == 0.0:
        return 'zero:%s' % (A.shape,)
    q = np.round(A / s * 1e8).astype(np.int64)
    h = hashlib.sha1()
    h.update(str(A.shape).encode())
    h.update(('%.6e' % s).encode())
    h.update(q.tobytes())
    return h.hexdigest()[:16]


def maxabs(a):
    a = np.asarray(a)
    return float(np.abs(a).max()) if a.size else 0.0


def cmp_mats(A, B, tol=TOL, scale=None):
    """Entrywise comparison; returns None if equal within tol*max(1,scale) else a dict describing the
    worst deviation."""
    A = np.asarray(A, dtype=np.float64)
    B = np.asarray(B, dtype=np.float64)
    if A.shape != B.shape:
        return {'kind': 'shape', 'observed_shape': list(A.shape), 'expected_shape': list(B.shape)}
    if A.size == 0:
        return None
    if not np.isfinite(A).all():
        return {'kind': 'nonfinite', 'where': [int(i) for i in np.argwhere(~np.isfinite(A))[0]]}
    s = max(1.0, maxabs(B)) if scale is None else max(1.0, scale)
    D = np.abs(A - B)
    m = float(D.max())
    if m <= tol * s:
        return None
    idx = np.unravel_index(int(D.argmax()), D.shape)
    return {'kind': 'value', 'maxdev': m, 'tol': tol * s, 'argmax': [int(i) for i in idx],
            'observed': float(A[idx]), 'expected': float(B[idx]),
            'fro': float(np.sqrt((D ** 2).sum())), 'n_bad': int((D > tol * s).sum())}


def sha(obj):
    return hashlib.sha1(json.dumps(obj, sort_keys=True, default=str).encode()).hexdigest()[:12]


class Res(dict):
    """Result of one work item, returned from a worker to the aggregator."""

    def __init__(self):
        super().__init__(evals=0, transitions=0, states=[], ophashes=[], regimes=[], violations=[],
                         ood=0, samples=[], notes=[], impl_calls=0, extra={})

    def state(self, *key):
        self['states'].append('|'.join(str(k) for k in key))

    def regime(self, *names):
        for n in names:
            if n:
                self['regimes'].append(n)

    def op(self, A):
        self['ophashes'].append(ophash(A))

    def violation(self, check, config, detail, regimes=(), signature=None):
        self['violations'].append({'check': check, 'config': config, 'detail': detail,
                                   'regimes': sorted(set(regimes)), 'signature': signature})

    def sample(self, s):
        if len(self['samples']) < 2:
            self['samples'].append(s)
