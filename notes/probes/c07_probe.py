import warnings, logging, itertools
logging.disable(logging.WARNING); warnings.simplefilter('ignore')
import torch
torch.set_default_dtype(torch.float64)
from pytorch_wavelets import DWTForward, DWTInverse, DTCWTForward, DTCWTInverse
def flat(o,N,C):
    r=[]
    def rec(t):
        if isinstance(t,torch.Tensor):
            if t.dim()>0: r.append(t.reshape(N,C,-1))
        else:
            for u in t: rec(u)
    rec(o); return torch.cat(r,dim=2)
bad=[]
for name,m,(H,W) in [('dwt',DWTForward(J=2,wave='db2',mode='symmetric'),(5,6)),('dwtp',DWTForward(J=2,wave='bior1.3',mode='periodization'),(7,6)),('dtcwt',DTCWTForward(J=2,biort='near_sym_b',qshift='qshift_c'),(6,10))]:
    A=flat(m(torch.eye(H*W).reshape(H*W,1,H,W)),H*W,1)[:,0]  # P x M
    for N,C in itertools.product((1,2,3),(1,2,3)):
        for n,c in itertools.product(range(N),range(C)):
            x=torch.zeros(H*W,N,C,H*W); x[:,n,c]=torch.eye(H*W)
            # run each basis as separate batch-of-N call: reshape to (P*N, C, H, W)? no: must keep batch semantic: loop P
            for i in range(0,H*W,7):
                xi=x[i].reshape(N,C,H,W)
                y=flat(m(xi),N,C)
                exp=torch.zeros_like(y); exp[n,c]=A[i]
                if not torch.equal(y,exp) and (y-exp).abs().max()>1e-14: bad.append((name,N,C,n,c,i,(y-exp).abs().max().item()))
print(len(bad),bad[:5])
