"""C16 - dtype is preserved, float32 results are float32-accurate, memory layout does not matter."""
import itertools

import numpy as np

from .. import common, dwt, dtc
from ..common import Res

PID = 'C16'
LEVEL = 'exploration'
EPS32 = float(np.finfo(np.float32).eps)
EPS64 = float(np.finfo(np.float64).eps)
RULE = ('every module type (DWT1D/DWT2D forward+inverse, SWT, DTCWT forward+inverse, ScatLayer, ScatLayerj2) x configuration sub-lattice x '
        '{float32, float64} x {constructed in that dtype, converted with .float()/.double() before first use, converted after having been used}: every returned tensor has the input dtype; '
        'converted vs constructed within 64*eps32*gain*max|x|; accuracy: the float64 operator A64 is extracted, gain = largest absolute row sum, '
        'inputs = every impulse x {1e-6,1,1e6}, the sign vector attaining every row sum (worst case for rounding) x scales, mixed-dynamic-range '
        '3-sparse vectors and a dense table; oracle max|y32 - y64| <= 64*eps32*(gain*max|x| + bias). Scattering layers: all 1-sparse images x '
        'value alphabet, dense table, scales. Memory layouts: every input also as strided ([..., ::2] of a wider tensor), transposed, '
        'batch-expanded (stride 0), channels-last and offset-storage views; equals the contiguous copy within 4 ulp * gain * max|x|. '
        'distinct_nontrivial = distinct (module, config, dtype/layout variant) cases compared')
ASSUMPTIONS = ['not an error analysis: decided on the extremal / mixed-range / impulse alphabets', 'C07 for the batched evaluation of the alphabets']
CHUNK = 1
K = 64.0


def plan(tier):
    q = tier == 'quick'
    items = []
    for w in (['db2', 'bior2.4', 'db8'] if q else ['haar', 'db2', 'bior2.4', 'db8', 'rbio3.1', 'sym12']):
        for mode in (['zero', 'symmetric', 'periodization'] if q else dwt.MODES):
            for n in ([9, 16] if q else [5, 9, 16, 31]):
                for J in (1, 3):
                    for d in ('fwd', 'inv'):
                        items.append({'fam': 'dwt1d', 'dir': d, 'wave': w, 'mode': mode, 'shape': [n], 'J': J})
    for w in ['db2', 'bior1.3'] + ([] if q else ['db4']):
        for mode in (['zero', 'symmetric', 'periodization', 'periodic'] if q else dwt.MODES):
            for hw in ([(6, 7), (8, 8)] if q else [(6, 7), (8, 8), (5, 5), (12, 9)]):
                for J in (1, 2):
                    for d in ('fwd', 'inv'):
                        items.append({'fam': 'dwt2d', 'dir': d, 'wave': w, 'mode': mode, 'shape': list(hw), 'J': J})
    for mode in ('zero', 'periodization'):
        for d in ('fwd', 'inv'):
            items.append({'fam': 'dwt2d', 'dir': d, 'wave': ['db2', 'db3'], 'mode': mode, 'shape': [6, 7], 'J': 2})
            items.append({'fam': 'dwt2d', 'dir': d, 'wave': ['db4', 'sym4'], 'mode': mode, 'shape': [8, 8], 'J': 1})
    for w in ['db2', 'bior2.2']:
        items.append({'fam': 'swt', 'dir': 'fwd', 'wave': w, 'mode': 'periodic', 'shape': [8, 8], 'J': 2})
    for (b, qs) in ([('near_sym_a', 'qshift_a'), ('antonini', 'qshift_c'), ('near_sym_b', 'qshift_d')] if q else dtc.PAIRS[::2]):
        for hw in [(6, 8), (7, 5)] + ([] if q else [(12, 12)]):
            for J in (1, 3):
                for d in ('fwd', 'inv'):
                    items.append({'fam': 'dtcwt', 'dir': d, 'biort': b, 'qshift': qs, 'shape': list(hw), 'J': J})
    for b in ['near_sym_a', 'near_sym_b_bp'] + ([] if q else ['antonini']):
        for mb in [0.0, 1e-2, 1.0] + ([] if q else [1e-3]):
            for hw in [(8, 8), (6, 10)]:
                for cc in (False, True):
                    items.append({'fam': 'scat1', 'dir': 'fwd', 'biort': b, 'magbias': mb, 'shape': list(hw), 'colour': cc})
    for (b, qs) in [('near_sym_a', 'qshift_a'), ('near_sym_b_bp', 'qshift_b_bp')]:
        for mb in [0.0, 1e-2, 1.0]:
            for hw in [(8, 8), (16, 8)]:
                for cc in (False, True):
                    items.append({'fam': 'scat2', 'dir': 'fwd', 'biort': b, 'qshift': qs, 'magbias': mb, 'shape': list(hw), 'colour': cc})
    return items


def bounds(tier):
    return {'K': K, 'scales': [1e-6, 1.0, 1e6], 'layouts': ['strided', 'transposed', 'expanded', 'channels_last', 'offset']}


def required_regimes(tier):
    return {'fam:dwt1d', 'fam:dwt2d', 'fam:swt', 'fam:dtcwt', 'fam:scat1', 'fam:scat2', 'dtype:constructed32', 'dtype:converted32',
            'dtype:converted64', 'dtype:used64_then_float', 'dtype:used32_then_double', 'accuracy:impulses', 'accuracy:extremal', 'accuracy:mixed_range', 'layout:strided', 'layout:transposed',
            'layout:expanded', 'layout:channels_last', 'layout:offset', 'layout:batch_sliced', 'layout:channel_expanded', 'mixed_dtype_call'}


def _make(item, dt):
    """Construct the module with torch's default dtype set to dt; returns (module, call) with call(mod, ins) -> list of tensors."""
    import torch
    old = torch.get_default_dtype()
    torch.set_default_dtype(dt)
    try:
        fam = item['fam']
        if fam == 'dwt1d':
            from pytorch_wavelets import DWT1DForward, DWT1DInverse
            m = DWT1DForward(J=item['J'], wave=item['wave'], mode=item['mode']) if item['dir'] == 'fwd' else DWT1DInverse(wave=item['wave'], mode=item['mode'])
        elif fam == 'dwt2d':
            from pytorch_wavelets import DWTForward, DWTInverse
            wv = item['wave']
            if isinstance(wv, (list, tuple)):          # per-axis wavelets in the 4-tuple form
                import pywt
                a_, b_ = pywt.Wavelet(wv[0]), pywt.Wavelet(wv[1])
                wf = (a_.dec_lo, a_.dec_hi, b_.dec_lo, b_.dec_hi)
                wi = (a_.rec_lo, a_.rec_hi, b_.rec_lo, b_.rec_hi)
            else:
                wf = wi = wv
            m = DWTForward(J=item['J'], wave=wf, mode=item['mode']) if item['dir'] == 'fwd' else DWTInverse(wave=wi, mode=item['mode'])
        elif fam == 'swt':
            from pytorch_wavelets.dwt.transform2d import SWTForward
            m = SWTForward(J=item['J'], wave=item['wave'], mode=item['mode'])
        elif fam == 'dtcwt':
            from pytorch_wavelets import DTCWTForward, DTCWTInverse
            m = DTCWTForward(biort=item['biort'], qshift=item['qshift'], J=item['J']) if item['dir'] == 'fwd' else DTCWTInverse(biort=item['biort'], qshift=item['qshift'])
        elif fam == 'scat1':
            from pytorch_wavelets import ScatLayer
            m = ScatLayer(biort=item['biort'], magbias=item['magbias'], combine_colour=item['colour'])
        else:
            from pytorch_wavelets import ScatLayerj2
            m = ScatLayerj2(biort=item['biort'], qshift=item['qshift'], magbias=item['magbias'], combine_colour=item['colour'])
    finally:
        torch.set_default_dtype(old)
    return m


def _call(item, m, ins):
    fam, d = item['fam'], item['dir']
    if fam in ('dwt1d', 'dwt2d', 'dtcwt'):
        if d == 'fwd':
            yl, yh = m(ins[0])
            return [yl] + list(yh)
        return [m((ins[0], list(ins[1:])))]
    if fam == 'swt':
        return list(m(ins[0]))
    return [m(ins[0])]


def _in_shapes(item, C):
    """per-item (C, *shape) input shapes; for inverse transforms the pyramid shapes from a float64 forward on zeros."""
    import torch
    shape = tuple(item['shape'])
    if item['dir'] == 'fwd':
        return [(C,) + shape]
    f = dict(item, dir='fwd')
    mf = _make(f, torch.float64)
    outs = _call(f, mf, [torch.zeros((1, C) + shape, dtype=torch.float64)])
    return [tuple(o.shape[1:]) for o in outs]


def _split(V, shapes):
    import torch
    out = []
    off = 0
    for s in shapes:
        m = int(np.prod(s))
        out.append(torch.as_tensor(np.ascontiguousarray(V[:, off:off + m])).reshape((V.shape[0],) + tuple(s)))
        off += m
    return out


def _flat(outs):
    import torch
    return torch.cat([o.reshape(o.shape[0], -1) for o in outs], dim=1)


def _gain_scat(item):
    import pytorch_wavelets.dtcwt.coeffs as ic
    t = ic.level1(item['biort'], compact=True)
    g1 = 2.0 * max(float(np.abs(x).sum()) for x in t[0::2]) ** 2
    if item['fam'] == 'scat1':
        return g1
    tq = ic.qshift(item['qshift'])
    g2 = 2.0 * max(float(np.abs(x).sum()) for x in tq) ** 2
    return g1 * (g1 + g2) + g1 * g2


def run(item):
    common.init_worker()
    import torch
    res = Res()
    fam = item['fam']
    cfg = dict(item)
    tags = ['fam:' + fam]
    linear = fam not in ('scat1', 'scat2')
    C = 3 if item.get('colour') else 1
    bias = float(item.get('magbias', 0.0))
    try:
        shapes = _in_shapes(item, C)
        m64 = _make(item, torch.float64)
        m32 = _make(item, torch.float32)
    except Exception as e:
        res.violation('construct', cfg, {'kind': 'raise', 'exc': repr(e)[:200]}, tags)
        return res
    P = int(sum(int(np.prod(s)) for s in shapes))
    res.state(common.sha(cfg))
    res.regime(*tags)

    def run64(V):
        with torch.no_grad():
            return _flat(_call(item, m64, _split(V.astype(np.float64), shapes))).numpy()

    def run32(V, mod=None):
        with torch.no_grad():
            outs = _call(item, mod or m32, [t.float() for t in _split(V, shapes)])
        return outs

    # ---- operator / gain
    if linear:
        A = run64(np.eye(P)).T
        gain = max(1.0, float(np.abs(A).sum(axis=1).max()))
        res.op(A)
    else:
        A = None
        gain = _gain_scat(item)
        res['ophashes'].append(common.sha(cfg))
    res['evals'] += P

    # ---- input alphabets (rows of V)
    rows = []
    kinds = []
    eye = np.eye(P)
    for s in (1e-6, 1.0, 1e6):
        rows.append(s * eye)
        kinds += ['impulses'] * P
    if linear:
        S = np.sign(A)
        S[S == 0] = 1.0
        if S.shape[0] > 400:
            S = S[:: S.shape[0] // 400 + 1]
        for s in (1.0, 1e-3, 1e4):
            rows.append(s * S)
            kinds += ['extremal'] * S.shape[0]
    else:
        for v in (-1.0, 1e-3, 1e3):
            rows.append(v * eye)
            kinds += ['impulses'] * P
    mr = []
    idx = [(i, (i * 7 + 3) % P, (i * 13 + 5) % P) for i in range(0, P, max(1, P // 24))]
    for (a, b, c) in idx:
        v = np.zeros(P)
        v[a] += 1e6
        v[b] += 1.0
        v[c] += 1e-6
        mr.append(v)
        v2 = np.zeros(P)
        v2[a] += -3e4
        v2[b] += 2e-3
        v2[c] += 7.0
        mr.append(v2)
    rows.append(np.array(mr))
    kinds += ['mixed_range'] * len(mr)
    ar = np.arange(P)
    dense = np.stack([np.ones(P), (-1.0) ** ar, ar / max(1, P - 1), np.cos(1.3 * ar + 0.4), 1e3 * np.sin(0.7 * ar)])
    rows.append(dense)
    kinds += ['dense'] * len(dense)
    V = np.concatenate(rows).astype(np.float32).astype(np.float64)         # values exactly representable in float32
    kinds = np.array(kinds)

    # ---- dtype preservation + accuracy, constructed and converted modules
    try:
        Y64 = run64(V)
    except Exception as e:
        res.violation('float64_call', cfg, {'kind': 'raise', 'exc': repr(e)[:200]}, tags)
        return res
    res['impl_calls'] += 1
    xmax = np.abs(V).max(axis=1)
    def used_then_converted(dt_from, dt_to):
        # a module that has already served calls in one precision and is then converted (state cached during a call must follow)
        m = _make(item, dt_from)
        with torch.no_grad():
            _call(item, m, [t.to(dt_from) for t in _split(V[:3], shapes)])
        return m.to(dt_to)

    variants = [('constructed32', m32, torch.float32), ('converted32', _make(item, torch.float64).float(), torch.float32),
                ('converted64', _make(item, torch.float32).double(), torch.float64),
                ('used64_then_float', used_then_converted(torch.float64, torch.float32), torch.float32),
                ('used32_then_double', used_then_converted(torch.float32, torch.float64), torch.float64)]
    for name, mod, dt in variants:
        vcfg = dict(cfg, variant=name)
        res.regime('dtype:' + name)
        res['ophashes'].append(common.sha(vcfg))
        try:
            with torch.no_grad():
                outs = _call(item, mod, [t.to(dt) for t in _split(V, shapes)])
        except Exception as e:
            res.violation('dtype_variant_call', vcfg, {'kind': 'raise', 'exc': repr(e)[:200]}, tags)
            continue
        res['impl_calls'] += 1
        res['evals'] += V.shape[0]
        wrong = [str(o.dtype) for o in outs if o.dim() > 0 and o.numel() > 0 and o.dtype != dt]
        if wrong:
            res.violation('dtype_preserved', vcfg, {'kind': 'dtype', 'observed': wrong, 'expected': str(dt)}, tags)
            continue
        Y = _flat(outs).double().numpy()
        err = np.abs(Y - Y64).max(axis=1)
        bound = K * EPS32 * (gain * xmax + bias)
        bad = np.where(~(err <= bound))[0]
        for k in ('impulses', 'extremal', 'mixed_range'):
            if (kinds == k).any():
                res.regime('accuracy:' + k)
        if len(bad):
            i = int(bad[np.argmax(err[bad] / bound[bad])])
            res.violation('float32_accuracy' if dt == torch.float32 else 'converted_equals_constructed', dict(vcfg, input_kind=str(kinds[i])),
                          {'kind': 'value', 'maxerr': float(err[i]), 'bound': float(bound[i]), 'ratio_to_eps32_gain_xmax': float(err[i] / (EPS32 * (gain * xmax[i] + bias))),
                           'nonfinite': bool(~np.isfinite(err[i]))}, tags)
        res['extra']['max_err_over_eps32_gain_xmax_x1000'] = max(res['extra'].get('max_err_over_eps32_gain_xmax_x1000', 0), int(1000 * float(np.nanmax(err / (EPS32 * (gain * xmax + bias))))))
    # ---- mixed dtype call: may raise, must never return a tensor of the wrong dtype silently
    try:
        with torch.no_grad():
            outs = _call(item, m32, [t.double() for t in _split(V[:2], shapes)])
        res.regime('mixed_dtype_call')
        if any(o.dtype != torch.float64 for o in outs if o.dim() > 0 and o.numel() > 0):
            res['notes'].append('mixed_dtype_call_returns_module_dtype')
    except Exception:
        res.regime('mixed_dtype_call')
        res['notes'].append('mixed_dtype_call_raises')
    # ---- memory layouts (N=2 batch of dense rows, float32 and float64)
    # three channels (so that batch / channel strides matter) unless the layer fixes the channel count
    C3 = 3
    shapes3 = shapes if C == 3 else _in_shapes(item, C3)
    P3 = int(sum(int(np.prod(s_)) for s_ in shapes3))
    ar3 = np.arange(P3)
    Vl = np.stack([np.cos(1.3 * ar3 + 0.4), 1e3 * np.sin(0.7 * ar3)]).astype(np.float32).astype(np.float64)
    for dt, mod, ulp in ((torch.float64, m64, EPS64), (torch.float32, m32, EPS32)):
        ins = [t.to(dt) for t in _split(Vl, shapes3)]
        with torch.no_grad():
            ref = _flat(_call(item, mod, [t.contiguous() for t in ins])).double().numpy()
        xm = float(np.abs(Vl).max())
        for lay in ('strided', 'transposed', 'expanded', 'channels_last', 'offset', 'batch_sliced', 'channel_expanded'):
            lcfg = dict(cfg, layout=lay, dtype=str(dt).split('.')[-1])
            views = []
            contig = []
            for t in ins:
                if lay == 'strided':
                    wide = torch.zeros(t.shape[:-1] + (2 * t.shape[-1],), dtype=dt)
                    wide[..., ::2] = t
                    wide[..., 1::2] = 77.0
                    v = wide[..., ::2]
                elif lay == 'transposed':
                    if t.dim() < 3:
                        v = t
                    else:
                        v = t.transpose(-1, -2).contiguous().transpose(-1, -2)
                elif lay == 'expanded':
                    v = t[0:1].expand(t.shape)
                elif lay == 'channels_last':
                    v = t.contiguous(memory_format=torch.channels_last) if t.dim() == 4 else t.transpose(1, -1).contiguous().transpose(1, -1)
                elif lay == 'batch_sliced':
                    big = torch.full((2 * t.shape[0],) + tuple(t.shape[1:]), 33.0, dtype=dt)
                    big[::2] = t
                    v = big[::2]
                elif lay == 'channel_expanded':
                    v = t[:, 0:1].expand(t.shape) if t.dim() >= 3 else t
                else:
                    buf = torch.full((t.numel() + 5,), 55.0, dtype=dt)
                    buf[3:3 + t.numel()] = t.reshape(-1)
                    v = buf[3:3 + t.numel()].view(t.shape)
                views.append(v)
                contig.append(v.contiguous())
            try:
                with torch.no_grad():
                    got = _flat(_call(item, mod, views)).double().numpy()
                    exp = _flat(_call(item, mod, contig)).double().numpy()
            except Exception as e:
                res.violation('memory_layout', lcfg, {'kind': 'raise', 'exc': repr(e)[:200]}, tags)
                continue
            res['impl_calls'] += 2
            res['evals'] += 2
            res.regime('layout:' + lay)
            res['ophashes'].append(common.sha(lcfg))
            tol = 4 * ulp * (gain * xm + bias)
            dev = float(np.abs(got - exp).max())
            if not dev <= tol:
                res.violation('memory_layout', lcfg, {'kind': 'value', 'maxdev': dev, 'tol': tol}, tags)
    if fam == 'dtcwt' and item['dir'] == 'fwd' and item['J'] == 3 and item['shape'] == [6, 8]:
        res.sample({'config': cfg, 'inputs': int(V.shape[0]), 'gain': gain, 'kinds': {k: int((kinds == k).sum()) for k in set(kinds.tolist())}})
    return res
