"""Hidden process state of the library, found by introspection: every module-level object of every loaded
pytorch_wavelets.* module (containers, arrays, tensors, rebinding of scalars, function attributes such as memoize's
.cache, closure cells, mutable defaults, class attributes), plus torch's process-wide knobs.  canon() gives a value
digest per path (ids never enter), snapshot()/reset() restore the containers in place so that explorations of different
histories start from the same state inside one long-lived worker."""
import copy
import hashlib
import sys
import types

import numpy as np

PKG = 'pytorch_wavelets'
_SCALARS = (int, float, complex, str, bytes, bool, type(None))


def lib_modules():
    return sorted((n, m) for n, m in list(sys.modules.items()) if (n == PKG or n.startswith(PKG + '.')) and isinstance(m, types.ModuleType))


def _digest(b):
    return hashlib.sha1(b).hexdigest()[:16]


def canon(o, depth=0):
    """Value digest of a data object (None for things that are not data: modules, classes, plain functions...)."""
    import torch
    if depth > 6:
        return 'deep'
    if isinstance(o, _SCALARS):
        return 's:' + repr(o)
    if isinstance(o, np.ndarray):
        return 'a:%s:%s:%s' % (o.dtype, o.shape, _digest(np.ascontiguousarray(o).tobytes()))
    if isinstance(o, np.generic):
        return 'g:' + repr(o)
    if isinstance(o, torch.Tensor):
        a = o.detach().cpu().contiguous()
        return 't:%s:%s:%s:%s' % (a.dtype, tuple(a.shape), bool(o.requires_grad), _digest(a.numpy().tobytes() if a.numel() else b''))
    if isinstance(o, dict):
        items = sorted((repr(canon(k, depth + 1)), canon(v, depth + 1)) for k, v in list(o.items()))
        return 'd:' + _digest(repr(items).encode())
    if isinstance(o, (list, tuple)):
        return '%s:%s' % (type(o).__name__[0], _digest(repr([canon(v, depth + 1) for v in o]).encode()))
    if isinstance(o, (set, frozenset)):
        return 'S:' + _digest(repr(sorted(repr(canon(v, depth + 1)) for v in o)).encode())
    if isinstance(o, torch.nn.Module):
        return 'm:' + _digest(repr(sorted((k, canon(v, depth + 1)) for k, v in o.state_dict().items())).encode())
    return None


def _is_data(o):
    import torch
    return isinstance(o, _SCALARS + (np.ndarray, np.generic, torch.Tensor, dict, list, tuple, set, frozenset, torch.nn.Module))


def _own(fn, modname):
    return getattr(fn, '__module__', None) == modname or (getattr(fn, '__module__', '') or '').startswith(PKG)


def walk():
    """Yield (path, holder, key, kind, value) for every piece of module-level state. kind in attr|fattr|cell|default."""
    seen_fn = set()
    for mname, mod in lib_modules():
        for name, val in sorted(vars(mod).items()):
            if name.startswith('__') and name.endswith('__'):
                continue
            if isinstance(val, types.ModuleType):
                continue
            if _is_data(val):
                yield ('%s.%s' % (mname, name), mod, name, 'attr', val)
            fns = []
            if isinstance(val, types.FunctionType) and _own(val, mname):
                fns.append((name, val))
            elif isinstance(val, type) and _own(val, mname):
                for cn, cv in sorted(vars(val).items()):
                    if cn.startswith('__') and cn.endswith('__'):
                        continue
                    raw = cv.__func__ if isinstance(cv, (staticmethod, classmethod)) else cv
                    if isinstance(raw, types.FunctionType):
                        fns.append(('%s.%s' % (name, cn), raw))
                    elif _is_data(cv):
                        yield ('%s.%s.%s' % (mname, name, cn), val, cn, 'cattr', cv)
            elif callable(val) and hasattr(val, 'cache_clear') and hasattr(val, '__wrapped__'):
                yield ('%s.%s<lru>' % (mname, name), val, None, 'lru', val.cache_info().currsize)
                w = val.__wrapped__
                if isinstance(w, types.FunctionType):
                    fns.append((name + '.__wrapped__', w))
            for fname, fn in fns:
                seen = fn
                k = 0
                while seen is not None and k < 4:           # follow functools.wraps chains
                    if id(seen) in seen_fn:
                        break
                    seen_fn.add(id(seen))
                    for an, av in sorted(vars(seen).items()):
                        if an != '__wrapped__' and _is_data(av):
                            yield ('%s.%s#%s' % (mname, fname, an), seen, an, 'fattr', av)
                    if seen.__defaults__:
                        for i, dv in enumerate(seen.__defaults__):
                            if isinstance(dv, (dict, list, set, np.ndarray)):
                                yield ('%s.%s#default%d' % (mname, fname, i), seen, i, 'default', dv)
                    if seen.__closure__:
                        for i, cell in enumerate(seen.__closure__):
                            try:
                                cv = cell.cell_contents
                            except ValueError:
                                continue
                            if _is_data(cv) and not isinstance(cv, _SCALARS):
                                yield ('%s.%s#cell%d' % (mname, fname, i), cell, None, 'cell', cv)
                    seen = getattr(seen, '__wrapped__', None)
                    k += 1


def state():
    """{path: digest} of the hidden state, plus torch's process-wide knobs."""
    import torch
    out = {}
    for path, holder, key, kind, val in walk():
        out[path] = canon(val) if kind != 'lru' else 'lru:%d' % val
    out['torch.default_dtype'] = str(torch.get_default_dtype())
    out['torch.grad_enabled'] = str(torch.is_grad_enabled())
    out['torch.num_threads'] = str(torch.get_num_threads())
    return out


def state_hash(st=None):
    st = state() if st is None else st
    return _digest(repr(sorted(st.items())).encode())


class Snapshot:
    """Deep copy of the hidden state taken once (after import); reset() puts every container back in place."""

    def __init__(self):
        import torch
        self.saved = {}
        for path, holder, key, kind, val in walk():
            if kind == 'lru':
                continue
            self.saved[path] = copy.deepcopy(val)
        self.dtype = torch.get_default_dtype()

    def reset(self):
        import torch
        torch.set_default_dtype(self.dtype)
        torch.set_grad_enabled(True)
        live = set()
        for path, holder, key, kind, val in list(walk()):
            live.add(path)
            if kind == 'lru':
                holder.cache_clear()
                continue
            if path not in self.saved:
                # state that did not exist at import: empty containers in place, drop rebinding of new names
                if isinstance(val, (dict, set, list)):
                    val.clear()
                elif kind == 'attr' and not isinstance(val, (torch.Tensor, np.ndarray)):
                    try:
                        delattr(holder, key)
                    except Exception:
                        pass
                continue
            sv = self.saved[path]
            if canon(val) == canon(sv):
                continue
            if isinstance(val, dict) and isinstance(sv, dict):
                val.clear()
                val.update(copy.deepcopy(sv))
            elif isinstance(val, list) and isinstance(sv, list):
                val[:] = copy.deepcopy(sv)
            elif isinstance(val, set) and isinstance(sv, set):
                val.clear()
                val.update(copy.deepcopy(sv))
            elif isinstance(val, np.ndarray) and isinstance(sv, np.ndarray) and val.shape == sv.shape:
                val[...] = sv
            elif isinstance(val, torch.Tensor) and isinstance(sv, torch.Tensor) and val.shape == sv.shape:
                with torch.no_grad():
                    val.copy_(sv)
            elif kind in ('attr', 'cattr', 'fattr'):
                setattr(holder, key, copy.deepcopy(sv))
            elif kind == 'cell':
                holder.cell_contents = copy.deepcopy(sv)
