#!/bin/bash
# usage: tools/regress_seeds.sh [name-glob]   (developer tool) - re-runs, for every seeded change, the quick checks named in its
# meta.json against a scratch worktree of /repo HEAD with the patch applied (VERIF_REPO), and prints one line per (change, check).
cd /verif
mkdir -p /tmp/regwt
run_one() {
  d="$1"; name=$(basename "$d"); wt=/tmp/regwt/$name
  git -C /repo worktree add -q --detach "$wt" HEAD 2>/dev/null || return
  if ! git -C "$wt" apply "$d/patch.diff" 2>/dev/null; then echo "$name PATCH-DOES-NOT-APPLY"; git -C /repo worktree remove --force "$wt"; return; fi
  for pid in $(/venv/bin/python -c "import json,sys; print(' '.join(json.load(open('$d/meta.json'))['detected_by_quick_checks']))"); do
    out=$(VERIF_REPO="$wt" VERIF_NPROC=8 timeout 1800 ./check "$pid" quick 2>&1); rc=$?
    echo "$name $pid rc=$rc $(echo "$out" | grep -c '^VIOLATION') violations"
  done
  git -C /repo worktree remove --force "$wt" 2>/dev/null; rm -rf "$wt"
}
export -f run_one
ls -d /verif/seeded/${1:-C*}/ | sed 's#/$##' | xargs -P 2 -I{} bash -c 'run_one {}'
