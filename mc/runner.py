"""Run one property's exploration on a process pool, aggregate, match known findings, write evidence."""
import importlib
import json
import multiprocessing as mp
import os
import sys
import time
import traceback

from . import common

VERIF = os.path.dirname(os.path.dirname(os.path.abspath(__file__)))
NPROC = int(os.environ.get('VERIF_NPROC', '16'))


def _init():
    common.init_worker()


def _key(v):
    return json.dumps([v['check'], v['config']], sort_keys=True, default=str)


def _work(arg):
    pid, item = arg
    mod = importlib.import_module('mc.props.' + pid.lower())
    try:
        res = mod.run(item)
        if res['violations']:
            # DESIGN 2.4: report only what reproduces on an immediate second run of the same case
            res2 = mod.run(item)
            keys2 = {_key(v) for v in res2['violations']}
            keep = [v for v in res['violations'] if _key(v) in keys2]
            if len(keep) != len(res['violations']):
                res['notes'].append('nonreproducible:%d' % (len(res['violations']) - len(keep)))
            res['violations'] = keep
        for v in res['violations']:
            v['item'] = item
        return dict(res)
    except Exception as e:
        # The checks run clean on the unchanged tree, so an exception escaping a property module on some other tree is
        # caused by that tree (a library call raising, or returning something of an unexpected shape / dtype / structure).
        # It is reported as a violation of the property (reproduced once first); only infrastructure failures exit 2.
        tb = traceback.format_exc()
        try:
            mod.run(item)
            return {'crash': tb, 'item': item}          # not reproducible: the harness is at fault
        except Exception as e2:
            if type(e2) is not type(e):
                return {'crash': tb, 'item': item}
        res = common.Res()
        cfg = {k: v for k, v in item.items() if k not in ('ref',) and not isinstance(v, (dict,))}
        cfg = json.loads(json.dumps(cfg, default=str))
        res.violation('exception_in_check', cfg, {'kind': 'raise', 'exc': repr(e)[:300], 'where': tb.strip().splitlines()[-3:][0].strip()[:200]}, [])
        res['ophashes'] += ['exc0', 'exc1']
        for v in res['violations']:
            v['item'] = item
        return dict(res)


def load_findings():
    p = os.path.join(VERIF, 'known_findings.json')
    if not os.path.exists(p):
        return []
    return json.load(open(p))['findings']


def match_finding(v, pid, findings):
    for f in findings:
        if f.get('status') != 'open' or f['property'] != pid:
            continue
        ok = True
        for k, want in f['match'].items():
            if k == 'regime':
                ok = want in v['regimes']
            elif k == 'check':
                ok = v['check'] in (want if isinstance(want, list) else [want])
            else:
                have = v['config'].get(k)
                ok = have in want if isinstance(want, list) else have == want
            if not ok:
                break
        if ok and f.get('signature') is not None and v.get('signature') != f['signature']:
            ok = False
        if ok:
            return f
    return None


def run_property(pid, tier, seed):
    t0 = time.time()
    mod = importlib.import_module('mc.props.' + pid.lower())
    rdir = os.path.join(VERIF, 'replays', pid)
    if os.path.isdir(rdir):                      # replay files of earlier runs are stale
        for f in os.listdir(rdir):
            if f.endswith('.json'):
                os.unlink(os.path.join(rdir, f))
    items = mod.plan(tier)
    n_items = len(items)
    # VERIF_SEED only rotates the order in which work is handed out (DESIGN section 1)
    if n_items:
        r = seed % n_items
        items = items[r:] + items[:r]
    agg = dict(evals=0, transitions=0, states=set(), ophashes=set(), regimes=set(), violations=[], ood=0,
               samples=[], notes=[], impl_calls=0, extra={})
    crashes = []
    nproc = min(NPROC, max(1, n_items))
    ctx = mp.get_context('spawn')
    chunk = getattr(mod, 'CHUNK', 1)
    with ctx.Pool(nproc, initializer=_init) as pool:
        done = 0
        for res in pool.imap_unordered(_work, [(pid, it) for it in items], chunksize=chunk):
            done += 1
            if 'crash' in res:
                crashes.append(res)
                continue
            agg['evals'] += res['evals']
            agg['transitions'] += res['transitions']
            agg['impl_calls'] += res['impl_calls']
            agg['ood'] += res['ood']
            agg['states'].update(res['states'])
            agg['ophashes'].update(res['ophashes'])
            agg['regimes'].update(res['regimes'])
            agg['violations'].extend(res['violations'])
            agg['notes'].extend(res['notes'])
            for k, val in res['extra'].items():
                if isinstance(val, (int, float)) and k.startswith('max_'):
                    agg['extra'][k] = max(agg['extra'].get(k, 0), val)
                elif isinstance(val, (int, float)):
                    agg['extra'][k] = agg['extra'].get(k, 0) + val
                elif isinstance(val, list):
                    agg['extra'].setdefault(k, [])
                    agg['extra'][k] = sorted(set(agg['extra'][k]) | set(val))
            if len(agg['samples']) < 4:
                agg['samples'].extend(res['samples'][:1])
            if os.environ.get('VERIF_PROGRESS') and done % 200 == 0:
                print('  .. %d/%d items, %.0fs' % (done, n_items, time.time() - t0), file=sys.stderr)

    if crashes:
        for c in crashes[:3]:
            print('BROKEN: worker crashed on item %s\n%s' % (json.dumps(c['item'], default=str), c['crash']))
        print('BROKEN: %d work items crashed inside the harness' % len(crashes))
        return 2

    findings = load_findings()
    known = {}
    unknown = []
    for v in agg['violations']:
        f = match_finding(v, pid, findings)
        if f is not None:
            known.setdefault(f['id'], [f, 0])[1] += 1
        else:
            unknown.append(v)

    # vacuity guards (DESIGN 2.6): the check is broken, not the library, if coverage is degenerate
    broken = []
    need = set(mod.required_regimes(tier)) if hasattr(mod, 'required_regimes') else set()
    missing = sorted(need - agg['regimes'])
    if missing:
        broken.append('declared regimes never hit: %s' % missing)
    if len(agg['ophashes']) < 2:
        broken.append('fewer than two distinct non-trivial cases explored')
    if agg['evals'] < 1:
        broken.append('nothing evaluated')

    if os.environ.get('VERIF_DUMP'):
        with open(os.environ['VERIF_DUMP'], 'w') as fh:
            json.dump(agg['violations'], fh, default=str)
    rdir = os.path.join(VERIF, 'replays', pid)
    lines = []
    written = 0
    unknown.sort(key=_key)
    for v in unknown:
        name = common.sha([v['check'], v['config']]) + '.json'
        path = os.path.join(rdir, name)
        if written < 25:
            os.makedirs(rdir, exist_ok=True)
            with open(path, 'w') as fh:
                json.dump({'property': pid, 'violation': v}, fh, indent=1, sort_keys=True, default=str)
            written += 1
            lines.append('VIOLATION property=%s replay=%s  # %s %s %s' % (
                pid, os.path.relpath(path, VERIF), v['check'], json.dumps(v['config'], sort_keys=True, default=str),
                json.dumps(v['detail'], default=str)[:300]))
    if len(unknown) > written:
        lines.append('(%d further violations of %s not written out)' % (len(unknown) - written, pid))

    wall = time.time() - t0
    level = mod.LEVEL
    cov = {
        'evaluations': int(agg['evals']),
        'distinct_nontrivial': int(len(agg['ophashes'])),
        'rule': mod.RULE,
        'samples': agg['samples'][:4] or ['(none)'],
        'states': int(len(agg['states'])),
        'transitions': int(agg['transitions']),
        'traces_validated_against_impl': int(agg['impl_calls']),
        'exhaustive': not broken,
        'work_items': n_items,
        'bounds': mod.bounds(tier) if hasattr(mod, 'bounds') else {},
        'regimes_hit': sorted(agg['regimes']),
        'out_of_domain': int(agg['ood']),
        'known_findings_seen': {k: n for k, (f, n) in known.items()},
        'notes': sorted(set(agg['notes']))[:20],
    }
    cov.update(agg['extra'])
    if hasattr(mod, 'finalize'):
        mod.finalize(cov, agg, tier)
    ev = {'property_id': pid, 'tier': tier, 'seed': int(seed), 'level': level, 'coverage': cov,
          'assumptions': list(getattr(mod, 'ASSUMPTIONS', [])), 'wall_s': round(wall, 2),
          'violations': len(unknown)}
    os.makedirs(os.path.join(VERIF, 'evidence'), exist_ok=True)
    with open(os.path.join(VERIF, 'evidence', pid + '.json'), 'w') as fh:
        json.dump(ev, fh, indent=1, sort_keys=True, default=str)

    print('%s %s: items=%d states=%d transitions=%d evaluations=%d distinct_operators=%d out_of_domain=%d '
          'regimes=%d wall=%.1fs' % (pid, tier, n_items, len(agg['states']), agg['transitions'], agg['evals'],
                                     len(agg['ophashes']), agg['ood'], len(agg['regimes']), wall))
    for nt in sorted(set(agg['notes'])):
        if nt.startswith('free_running_mismatch'):
            print('NOTE (not deciding): ' + nt)
    for k, (f, n) in sorted(known.items()):
        print('KNOWN-FINDING: property=%s %s %s (%d cases)' % (pid, k, f['what'], n))
    for ln in lines:
        print(ln)
    if unknown:
        return 1
    if broken:
        for b in broken:
            print('BROKEN: ' + b)
        return 2
    print('%s %s: held on everything explored' % (pid, tier))
    return 0


def replay(path):
    common.init_worker()
    rec = json.load(open(path))
    pid = rec['property']
    v = rec['violation']
    mod = importlib.import_module('mc.props.' + pid.lower())
    res = mod.run(v['item'])
    want = _key(v)
    for w in res['violations']:
        if _key(w) == want:
            print('VIOLATION property=%s replay=%s  # reproduced: %s' % (pid, path, json.dumps(w['detail'], default=str)[:400]))
            return 1
    print('replay %s: not reproduced on the current tree (%d other violations in the same work item)'
          % (path, len(res['violations'])))
    return 0
