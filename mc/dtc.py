"""DTCWT lattices, the shape-transition map and adapters around the implementation and the NumPy `dtcwt` reference."""
import numpy as np

BIORTS = ['antonini', 'legall', 'near_sym_a', 'near_sym_b']
QSHIFTS = ['qshift_06', 'qshift_a', 'qshift_b', 'qshift_c', 'qshift_d']
PAIRS = [(b, q) for b in BIORTS for q in QSHIFTS]


def even(n):
    return n + (n % 2)


def next_shape(level, r, c):
    """Shape map of the pyramid. level 1: (H,W) -> lowpass (even H, even W) [highpass at half that];
    level >= 2: pad each axis to a multiple of 4, then halve."""
    if level == 1:
        return even(r), even(c)
    r4 = r if r % 4 == 0 else r + 2
    c4 = c if c % 4 == 0 else c + 2
    return r4 // 2, c4 // 2


def path(H, W, J):
    """[(level, in_shape, out_lowpass_shape, highpass_shape, tags)] for levels 1..J."""
    out = []
    r, c = H, W
    for lev in range(1, J + 1):
        tags = []
        if lev == 1:
            if r % 2:
                tags.append('l1:odd_rows')
            if c % 2:
                tags.append('l1:odd_cols')
            nr, nc = next_shape(1, r, c)
            hp = (nr // 2, nc // 2)
        else:
            pr, pc = r % 4 != 0, c % 4 != 0
            tags.append('l2+:pad_' + ('both' if pr and pc else 'rows_only' if pr else 'cols_only' if pc else 'none'))
            nr, nc = next_shape(lev, r, c)
            hp = (nr // 2, nc // 2)
        out.append((lev, (r, c), (nr, nc), hp, tags))
        r, c = nr, nc
    return out


def closure_depth(H, W, cap):
    r, c = next_shape(1, H, W)
    d = 1
    while d < cap:
        nr, nc = next_shape(2, r, c)
        d += 1
        if (nr, nc) == (r, c):
            break
        r, c = nr, nc
    return d


def grid(tier, kind='pairs'):
    if tier == 'quick':
        g = list(range(2, 13)) if kind == 'biort' else [2, 3, 4, 5, 6, 7, 8, 10, 12]
        return [(h, w) for h in g for w in g]
    g = list(range(2, 21)) if kind == 'biort' else list(range(2, 17))
    out = [(h, w) for h in g for w in g]
    if kind == 'biort':
        out += [(h, w) for h in range(21, 81) for w in (2, 3, 4, 6)] + [(w, h) for h in range(21, 81) for w in (2, 3, 4, 6)]
    else:
        out += [(h, w) for h in (17, 18, 19, 20, 24, 30, 31, 32, 40) for w in (2, 3, 4, 6)] + \
               [(w, h) for h in (17, 18, 19, 20, 24, 30, 31, 32, 40) for w in (2, 3, 4, 6)]
    return out


BIG = [(32, 32), (24, 36), (33, 18)]           # a few states far beyond the filter lengths (complete basis as well)
BIG_PAIRS = [('near_sym_a', 'qshift_a'), ('antonini', 'qshift_c'), ('near_sym_b', 'qshift_d')]

_T = {}


def ref_transform(biort, qshift):
    import dtcwt
    k = (biort, qshift)
    if k not in _T:
        _T[k] = dtcwt.Transform2d(biort=biort, qshift=qshift)
    return _T[k]


def ref_forward(biort, qshift, X, J):
    """X: (P,H,W). One reference call per image with nlevels=J and include_scale=True.
    Returns (scales, highs): scales[j] (P,r,c) lowpass after level j+1; highs[j] (P,6,h,w,2)."""
    t = ref_transform(biort, qshift)
    scales = None
    highs = None
    for i in range(X.shape[0]):
        p = t.forward(X[i], nlevels=J, include_scale=True)
        if scales is None:
            scales = [np.zeros((X.shape[0],) + s.shape) for s in p.scales]
            highs = [np.zeros((X.shape[0], 6) + h.shape[:2] + (2,)) for h in p.highpasses]
        for j in range(J):
            scales[j][i] = p.scales[j]
            hp = p.highpasses[j]
            highs[j][i, :, :, :, 0] = np.moveaxis(hp.real, 2, 0)
            highs[j][i, :, :, :, 1] = np.moveaxis(hp.imag, 2, 0)
    return scales, highs


def ref_inverse(biort, qshift, yl, yh):
    """yl (P,r,c); yh list (finest first) of (P,6,h,w,2). One reference call per pyramid."""
    import dtcwt
    t = ref_transform(biort, qshift)
    out = None
    for i in range(yl.shape[0]):
        hps = tuple(np.moveaxis(h[i, ..., 0] + 1j * h[i, ..., 1], 0, 2) for h in yh)
        x = t.inverse(dtcwt.Pyramid(yl[i], hps))
        if out is None:
            out = np.zeros((yl.shape[0],) + x.shape)
        out[i] = x
    return out


def impl_forward(biort, qshift, X, J, **kw):
    """X: (P,1,H,W) array -> (yl (P,1,r,c), [yh_j (P,1,6,h,w,2)]) as numpy (default layout)."""
    import torch
    from pytorch_wavelets import DTCWTForward
    yl, yh = DTCWTForward(biort=biort, qshift=qshift, J=J, **kw)(torch.as_tensor(X))
    return yl, yh


def impl_inverse(biort, qshift, yl, yh, **kw):
    import torch
    from pytorch_wavelets import DTCWTInverse
    return DTCWTInverse(biort=biort, qshift=qshift, **kw)((yl, yh))
