"""C02 - DWT synthesis inverts analysis: S*A = I on the original extent, on every path of the shape graph."""
import numpy as np

from .. import common, dwt
from ..common import Res, cmp_mats
from . import c01

PID = 'C02'
LEVEL = 'model_checking'
RULE = ('same shape graph as C01; for every start state and every J = 1..closure+1 the complete impulse basis is '
        'pushed through the real forward module and its output through the real inverse module; the product S*A is '
        'compared with the identity on the original extent, slack = 4x PyWavelets\' own reconstruction error; '
        'distinct_nontrivial = distinct (config, size, J) products actually compared')
ASSUMPTIONS = c01.ASSUMPTIONS + ['approximately-PR wavelets are judged against PyWavelets\' own reconstruction error (C02 statement)']
CHUNK = 4
bounds = c01.bounds


PAIRS = [('db2', 'db3'), ('db4', 'sym4'), ('bior2.2', 'coif1'), ('haar', 'bior1.3'), ('sym4', 'db2')]


def plan(tier):
    items = c01.plan(tier)
    # per-axis wavelets (4-tuple form): forward and inverse must still be inverses of each other
    sz = [(4, 4), (5, 8), (8, 5), (7, 7), (12, 6)] if tier == 'quick' else [(h, w) for h in range(2, 13) for w in range(2, 13)]
    for (a, b) in PAIRS:
        for mode in dwt.MODES:
            for (h, w) in sz:
                items.append({'dim': 2, 'wave': [a, b], 'mode': mode, 'h': h, 'w': w, 'jcap': 3})
    return items


def required_regimes(tier):
    return c01.required_regimes(tier) - {'reflect:allowed_raise', 'variant:N=1', 'variant:C=2', 'variant:no_grad', 'variant:positional'} | {'extra_trailing_sample', 'exact_extent', 'pair:4tuple', 'mode_reassigned'}


def run(item):
    common.init_worker()
    res = Res()
    if item['dim'] == 1:
        for n in item['ns']:
            _run1(res, item['wave'], item['mode'], n, item['jcap'])
    else:
        _run2(res, item)
    return res


def _judge(res, cfg, R, shape, err_ref, tags):
    """R: (P,1,*out_shape) reconstruction of the P impulses of `shape`."""
    P = int(np.prod(shape))
    res['evals'] += P
    out = R.shape[2:]
    for a, b in zip(out, shape):
        if a not in (b, b + 1):
            res.violation('perfect_reconstruction', cfg, {'kind': 'extent', 'observed': list(out),
                                                          'expected': 'n or n+1 per axis of %s' % (list(shape),)}, tags)
            return
    res.regime('extra_trailing_sample' if tuple(out) != tuple(shape) else 'exact_extent')
    sl = (slice(None), slice(None)) + tuple(slice(0, b) for b in shape)
    M = R[sl].reshape(P, P).T
    tol = max(common.TOL, 4 * err_ref)
    d = cmp_mats(M, np.eye(P), tol=tol, scale=1.0)
    if d is not None:
        d['err_ref'] = err_ref
        res.violation('perfect_reconstruction', cfg, d, tags)
    res['ophashes'].append(common.sha(cfg))


def _run1(res, w, mode, n, cap):
    import pywt
    L = dwt.flen(w)
    X = common.eye_batch((n,))
    Jmax = min(cap, dwt.closure_depth(n, L, mode, cap) + 1)
    for J in range(1, Jmax + 1):
        cfg = {'dim': 1, 'wave': w, 'mode': mode, 'n': n, 'J': J}
        tags = dwt.regimes_1d(n, L, mode, J)
        for m in dwt.level_lengths(n, L, mode, J)[:-1]:
            res.state(1, w, mode, m)
        try:
            co = pywt.wavedec(X[:, 0], w, mode=mode, level=J, axis=-1)
            rr = pywt.waverec(co, w, mode=mode, axis=-1)
            err_ref = common.maxabs(rr[:, :n] - np.eye(n))
        except Exception:
            res['ood'] += 1
            continue
        try:
            fw = dwt.impl_fwd1d(w, mode, J, X)
        except Exception:
            res['ood'] += 1          # C02 quantifies over configurations on which the forward returns
            continue
        res['impl_calls'] += 2
        try:
            R = dwt.impl_inv1d(w, mode, fw[0], fw[1:])
        except Exception as e:
            res.violation('perfect_reconstruction', cfg, {'kind': 'raise', 'exc': repr(e)[:200]}, tags)
            continue
        res['transitions'] += 2 * J
        res.regime(*tags)
        _judge(res, cfg, R, (n,), err_ref, tags)
        if J == 2 and n in (9, 12):
            # a forward/inverse pair built for another mode and switched through the public .mode attribute behaves like a fresh pair
            import torch
            from pytorch_wavelets import DWT1DForward, DWT1DInverse
            other = 'zero' if mode in ('periodization', 'per') else 'periodization'
            try:
                f2, i2 = DWT1DForward(J=J, wave=w, mode=other), DWT1DInverse(wave=w, mode=other)
                f2.mode = mode
                i2.mode = mode
                R2 = i2(f2(torch.as_tensor(X))).numpy()
                res.regime('mode_reassigned')
                if R2.shape != R.shape or not np.array_equal(R2, R):
                    res.violation('perfect_reconstruction', dict(cfg, mode_reassigned_from=other), {'kind': 'value_or_shape', 'observed_shape': list(R2.shape[2:]), 'expected_shape': list(R.shape[2:])}, tags)
            except Exception as e:
                res.violation('perfect_reconstruction', dict(cfg, mode_reassigned_from=other), {'kind': 'raise', 'exc': repr(e)[:200]}, tags)
        if J == 2 and n == 7:
            res.sample({'config': cfg, 'recon_len': int(R.shape[-1]), 'err_ref': err_ref})


def _run2(res, item):
    import pywt
    w, mode, h, ww = item['wave'], item['mode'], item['h'], item['w']
    if isinstance(w, list):
        return _run2_pair(res, item)
    L = dwt.flen(w)
    X = common.eye_batch((h, ww))
    cap = item['jcap']
    Jmax = min(cap, max(dwt.closure_depth(h, L, mode, cap), dwt.closure_depth(ww, L, mode, cap)) + 1)
    for J in range(1, Jmax + 1):
        cfg = {'dim': 2, 'wave': w, 'mode': mode, 'h': h, 'w': ww, 'J': J}
        tags = dwt.regimes_1d(h, L, mode, J, 'r') + dwt.regimes_1d(ww, L, mode, J, 'c')
        if h != ww:
            tags.append('2d:h!=w')
        for a, b in zip(dwt.level_lengths(h, L, mode, J)[:-1], dwt.level_lengths(ww, L, mode, J)[:-1]):
            res.state(2, w, mode, a, b)
        try:
            co = pywt.wavedec2(X[:, 0], w, mode=mode, level=J, axes=(-2, -1))
            rr = pywt.waverec2(co, w, mode=mode, axes=(-2, -1))
            err_ref = common.maxabs(rr[:, :h, :ww] - X[:, 0])
        except Exception:
            res['ood'] += 1
            continue
        try:
            import torch
            from pytorch_wavelets import DWTForward, DWTInverse
            yl, yh = DWTForward(J=J, wave=w, mode=mode)(torch.as_tensor(X))
        except Exception:
            res['ood'] += 1
            continue
        res['impl_calls'] += 2
        try:
            R = DWTInverse(wave=w, mode=mode)((yl, yh)).numpy()
        except Exception as e:
            res.violation('perfect_reconstruction', cfg, {'kind': 'raise', 'exc': repr(e)[:200]}, tags)
            continue
        res['transitions'] += 2 * J
        res.regime(*tags)
        _judge(res, cfg, R, (h, ww), err_ref, tags)
        if J == 2 and (h, ww) == (5, 3):
            res.sample({'config': cfg, 'recon_shape': list(R.shape[2:]), 'err_ref': err_ref})


def _run2_pair(res, item):
    """4-tuple (column wavelet, row wavelet): S*A = I with per-axis filters, judged against pywt's own error."""
    import pywt
    import torch
    from pytorch_wavelets import DWTForward, DWTInverse
    (a, b), mode, h, ww = item['wave'], item['mode'], item['h'], item['w']
    ca, cb = pywt.Wavelet(a), pywt.Wavelet(b)
    fa = (ca.dec_lo, ca.dec_hi, cb.dec_lo, cb.dec_hi)
    fs = (ca.rec_lo, ca.rec_hi, cb.rec_lo, cb.rec_hi)
    X = common.eye_batch((h, ww))
    for J in range(1, item['jcap'] + 1):
        cfg = {'dim': 2, 'wave': [a, b], 'form': '4tuple', 'mode': mode, 'h': h, 'w': ww, 'J': J}
        tags = ['pair:4tuple'] + (['2d:h!=w'] if h != ww else [])
        res.state(2, a, b, mode, h, ww, J)
        try:
            co = pywt.wavedec2(X[:, 0], (a, b), mode=mode, level=J, axes=(-2, -1))
            rr = pywt.waverec2(co, (a, b), mode=mode, axes=(-2, -1))
            err_ref = common.maxabs(rr[:, :h, :ww] - X[:, 0])
        except Exception:
            res['ood'] += 1
            continue
        try:
            yl, yh = DWTForward(J=J, wave=fa, mode=mode)(torch.as_tensor(X))
        except Exception:
            res['ood'] += 1
            continue
        res['impl_calls'] += 2
        try:
            R = DWTInverse(wave=fs, mode=mode)((yl, yh)).numpy()
        except Exception as e:
            res.violation('perfect_reconstruction', cfg, {'kind': 'raise', 'exc': repr(e)[:200]}, tags)
            continue
        res['transitions'] += 2 * J
        res.regime(*tags)
        _judge(res, cfg, R, (h, ww), err_ref, tags)
