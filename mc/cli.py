import os
import sys


def main(argv):
    from . import runner
    if len(argv) >= 2 and argv[0] == '--replay':
        return runner.replay(argv[1])
    if len(argv) < 1:
        print('usage: ./check <ID> [quick|thorough] | ./check --replay <file>')
        return 2
    pid = argv[0].upper()
    tier = argv[1] if len(argv) > 1 else os.environ.get('VERIF_TIER', 'quick')
    if tier not in ('quick', 'thorough'):
        print('unknown tier %r' % tier)
        return 2
    seed = int(os.environ.get('VERIF_SEED', '0') or 0)
    return runner.run_property(pid, tier, seed)


if __name__ == '__main__':
    sys.exit(main(sys.argv[1:]))
