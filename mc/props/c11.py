"""C11 - DTCWT synthesis equals the reference inverse on arbitrary pyramids; absent inputs act as zeros."""
import itertools

import numpy as np

from .. import common, dtc, dwt
from ..common import Res, cmp_mats
from . import c03

PID = 'C11'
LEVEL = 'model_checking'
RULE = ('synthesis over the DTCWT shape graph: for every start state (filter pair, H, W) and J = 1..closure+1 the pyramid shapes of '
        'the forward are taken, a complete basis over every real and imaginary coefficient of every orientation of every level and '
        'of the lowpass is pushed through the real DTCWTInverse and the extracted synthesis operator compared with '
        'dtcwt.Transform2d.inverse (one reference call per basis pyramid); for J <= 3 every proper subset of {lowpass, level 1..J} '
        'is made absent as None, as the forward\'s 0-dim skip placeholder and as torch.tensor([]) and compared with the '
        'zeros-substituted call; distinct_nontrivial = distinct non-zero synthesis operators')
ASSUMPTIONS = c03.ASSUMPTIONS + ['the reference inverse is extracted as ref(D+e_i)-ref(D) around a dense pyramid D because dtcwt.numpy.lowlevel.colifilt zeroes inputs supported on row 0']
CHUNK = 1


def pairs_sizes(tier):
    """All 20 pairs on a small size set covering every crop pattern; one rotating biort per qshift on the wider grid."""
    small = [(2, 2), (3, 5), (6, 8), (8, 6), (5, 12)] if tier == 'quick' else \
        [(h, w) for h in (2, 3, 6, 8, 12) for w in (2, 3, 6, 8, 12)]
    out = [(b, q, h, w) for (b, q) in dtc.PAIRS for (h, w) in small]
    g = [2, 3, 4, 6, 10] if tier == 'quick' else list(range(2, 13))
    rot = list(zip(dtc.BIORTS + dtc.BIORTS[:1], dtc.QSHIFTS))
    out += [(b, q, h, w) for (b, q) in rot for h in g for w in g]
    return sorted(set(out))


def bounds(tier):
    return {'start_states': len(pairs_sizes(tier)), 'J': '1..closure+1 (cap %d)' % jcap(tier), 'absent_subsets': 'all proper subsets, J<=3, 3 placeholder kinds'}


def jcap(tier):
    return 4 if tier == 'quick' else 5


def plan(tier):
    items = [{'biort': b, 'qshift': q, 'h': h, 'w': w, 'jcap': jcap(tier)} for (b, q, h, w) in pairs_sizes(tier)]
    items.sort(key=lambda it: -(it['h'] * it['w']))
    return items


def required_regimes(tier):
    return {'variant:N=1', 'variant:C=2', 'variant:no_grad', 'inv:crop_rows', 'inv:crop_cols', 'inv:no_crop', 'closure:self_loop', 'absent:lowpass', 'absent:level1',
            'absent:coarser_level', 'absent:next_to_crop', 'kind:None', 'kind:zero_dim', 'kind:empty', 'absent:lowpass_nondefault_layout'}


def run(item):
    common.init_worker()
    import torch
    res = Res()
    b, q, H, W = item['biort'], item['qshift'], item['h'], item['w']
    Jmax = min(item['jcap'], dtc.closure_depth(H, W, item['jcap']) + 1)
    pth = dtc.path(H, W, Jmax)
    for J in range(1, Jmax + 1):
        cfg = {'biort': b, 'qshift': q, 'h': H, 'w': W, 'J': J}
        tags = []
        for st in pth[1:J]:
            t = st[4][0]
            tags.append({'l2+:pad_both': 'inv:crop_rows', 'l2+:pad_rows_only': 'inv:crop_rows', 'l2+:pad_cols_only': 'inv:crop_cols',
                         'l2+:pad_none': 'inv:no_crop'}[t])
            if t == 'l2+:pad_both':
                tags.append('inv:crop_cols')
        if J == 1:
            tags.append('inv:no_crop')
        if J >= 2 and pth[J - 1][1] == pth[J - 1][2]:
            tags.append('closure:self_loop')
        lsh = pth[J - 1][2]
        hsh = [(6,) + st[3] + (2,) for st in pth[:J]]
        for st in pth[:J]:
            res.state('inv-l1' if st[0] == 1 else 'inv-l2+', b if st[0] == 1 else q, st[3])
        bands = dwt.band_basis([lsh] + hsh)
        P = bands[0].shape[0]
        try:
            # The reference's colifilt returns zeros whenever all non-zero entries of its input lie in row 0 (shortcut
            # `np.any(np.nonzero(X)[0])`), i.e. it is wrong on impulses in the first row/column. Its operator is therefore
            # extracted around a dense background pyramid D: ref(D + e_i) - ref(D).
            D = [_dense(bb.shape[1:], k) for k, bb in enumerate(bands)]
            r0 = dtc.ref_inverse(b, q, D[0][:, 0], [h[:, 0] for h in D[1:]])
            ref = dtc.ref_inverse(b, q, (bands[0] + D[0])[:, 0], [(h + d)[:, 0] for h, d in zip(bands[1:], D[1:])]) - r0
        except Exception:
            res['ood'] += 1
            continue
        tl = torch.as_tensor(bands[0])
        th = [torch.as_tensor(h) for h in bands[1:]]
        res['impl_calls'] += 1
        try:
            out = dtc.impl_inverse(b, q, tl, th).numpy()[:, 0]
        except Exception as e:
            res.violation('synthesis_vs_reference', cfg, {'kind': 'raise', 'exc': repr(e)[:200]}, tags)
            continue
        res['transitions'] += J
        res['evals'] += P
        res.regime(*tags)
        if out.shape != ref.shape:
            res.violation('synthesis_vs_reference', cfg, {'kind': 'shape', 'observed': list(out.shape[1:]), 'expected': list(ref.shape[1:])}, tags)
            continue
        d = cmp_mats(out.reshape(P, -1).T, ref.reshape(P, -1).T)
        if d is not None:
            res.violation('synthesis_vs_reference', cfg, d, tags)
        res.op(out.reshape(P, -1))
        if P <= 300:
            try:
                o1 = dtc.impl_inverse(b, q, tl[:1], [h_[:1] for h_ in th]).numpy()
                o2 = dtc.impl_inverse(b, q, torch.cat([tl, tl.flip(0)], dim=1), [torch.cat([h_, h_.flip(0)], dim=1) for h_ in th]).numpy()
                with torch.no_grad():
                    og = dtc.impl_inverse(b, q, tl, th).numpy()[:, 0]
                if og.shape != out.shape or not np.array_equal(og, out):
                    res.violation('synthesis_vs_reference', dict(cfg, variant='no_grad'), {'kind': 'value_or_shape', 'what': 'result under no_grad differs'}, tags)
                res['impl_calls'] += 3
                res.regime('variant:N=1', 'variant:C=2', 'variant:no_grad')
                e2 = np.stack([out, out[::-1]], axis=1)
                if o1.shape != (1, 1) + out.shape[1:] or common.maxabs(o1[0, 0] - out[0]) > common.TOL * max(1.0, common.maxabs(out)) or \
                        o2.shape != e2.shape or common.maxabs(o2 - e2) > common.TOL * max(1.0, common.maxabs(e2)):
                    res.violation('synthesis_vs_reference', dict(cfg, variant='N=1 / C=2'), {'kind': 'value_or_shape', 'shapes': [list(o1.shape), list(o2.shape)]}, tags)
            except Exception as e:
                res.violation('synthesis_vs_reference', dict(cfg, variant='N=1 / C=2'), {'kind': 'raise', 'exc': repr(e)[:200]}, tags)
        if (H, W, J) in ((6, 8, 2), (3, 5, 2)):
            res.sample({'config': cfg, 'pyramid_coefficients': int(P), 'lowpass': list(lsh), 'highpasses': [list(s) for s in hsh], 'output': list(out.shape[1:])})
        if J <= 3:
            _absent(res, b, q, J, cfg, tags, tl, th, pth)
    return res


def _dense(shape, k):
    n = int(np.prod(shape))
    v = 1.0 + 0.5 * np.cos(0.9 * np.arange(n) + 0.7 * k) + 0.25 * ((np.arange(n) * 7) % 5)
    return v.reshape((1,) + tuple(shape))


def _absent_layouts(res, b, q, J, cfg0, tags0, tl, th):
    """Absent lowpass in non-default (o_dim, ri_dim) layouts: same result as the default layout with a zero lowpass."""
    import torch
    from pytorch_wavelets import DTCWTInverse
    from .c12 import expected_layout
    exp = DTCWTInverse(biort=b, qshift=q)((torch.zeros_like(tl), th)).numpy()
    for (o, r) in ((1, -1), (3, 0), (0, 5), (-5, 2)):
        lay = [torch.as_tensor(expected_layout(h_.numpy(), o, r)) for h_ in th]
        cfg = dict(cfg0, absent=['lowpass'], placeholder='None', o_dim=o, ri_dim=r)
        try:
            got = DTCWTInverse(biort=b, qshift=q, o_dim=o, ri_dim=r)((None, lay)).numpy()
        except Exception as e:
            res.violation('absent_as_zeros', cfg, {'kind': 'raise', 'exc': repr(e)[:160]}, tags0)
            continue
        res['impl_calls'] += 1
        res.regime('absent:lowpass_nondefault_layout')
        if got.shape != exp.shape or common.maxabs(got - exp) > common.TOL * max(1.0, common.maxabs(exp)):
            res.violation('absent_as_zeros', cfg, {'kind': 'value_or_shape', 'observed_shape': list(got.shape[1:]), 'expected_shape': list(exp.shape[1:])}, tags0)


def _absent(res, b, q, J, cfg0, tags0, tl, th, pth):
    import torch
    from pytorch_wavelets import DTCWTInverse
    if J <= 2 and tl.shape[0] <= 200:
        _absent_layouts(res, b, q, J, cfg0, tags0, torch.cat([tl, tl.flip(0)], dim=1), [torch.cat([h_, h_.flip(0)], dim=1) for h_ in th])
    inv = DTCWTInverse(biort=b, qshift=q)
    names = ['lowpass'] + ['level%d' % (j + 1) for j in range(J)]
    for r in range(1, J + 1):
        for sub in itertools.combinations(range(J + 1), r):
            zl = torch.zeros_like(tl) if 0 in sub else tl
            zh = [torch.zeros_like(h) if (j + 1) in sub else h for j, h in enumerate(th)]
            exp = inv((zl, zh)).numpy()
            for kind in ('None', 'zero_dim', 'empty'):
                ph = {'None': None, 'zero_dim': tl.new_zeros([]), 'empty': torch.tensor([])}[kind]
                cfg = dict(cfg0, absent=[names[i] for i in sub], placeholder=kind)
                tags = list(tags0) + ['kind:' + kind]
                if 0 in sub:
                    tags.append('absent:lowpass')
                if 1 in sub:
                    tags.append('absent:level1')
                if any(i >= 2 for i in sub):
                    tags.append('absent:coarser_level')
                # an absent level whose forward step had padded the lowpass (so the inverse has to crop without seeing it)
                if any(i >= 1 and i < J and pth[i][4] and pth[i][4][0] != 'l2+:pad_none' for i in sub):
                    tags.append('absent:next_to_crop')
                al = ph if 0 in sub else tl
                ah = [ph if (j + 1) in sub else h for j, h in enumerate(th)]
                res['impl_calls'] += 1
                res['evals'] += tl.shape[0]
                try:
                    got = inv((al, ah)).numpy()
                except Exception as e:
                    res.violation('absent_as_zeros', cfg, {'kind': 'raise', 'exc': repr(e)[:160]}, tags)
                    continue
                res.regime(*[t for t in tags if t.startswith(('absent:', 'kind:'))])
                d = None
                if got.shape != exp.shape:
                    d = {'kind': 'shape', 'observed': list(got.shape[1:]), 'expected': list(exp.shape[1:])}
                else:
                    d = cmp_mats(got.reshape(got.shape[0], -1), exp.reshape(exp.shape[0], -1))
                if d is not None:
                    sig = None
                    if 'absent:next_to_crop' in tags:
                        cf = _uncropped_cf(inv, tl, th, sub)
                        if cf is not None and cf.shape == got.shape and common.maxabs(cf - got) <= common.TOL:
                            sig = 'absent_level_takes_uncropped_lowpass_size'
                    res.violation('absent_as_zeros', cfg, d, tags, signature=sig)


def _uncropped_cf(inv, tl, th, sub):
    """Closed form of known finding O5b: an absent level cannot tell the inverse to crop the running lowpass back from the
    multiple-of-4 extension, so it behaves like explicit zeros shaped like the *un-cropped* running lowpass (half its size).
    Evaluated by calling the real inverse with such explicit zeros."""
    import torch
    J = len(th)
    n = tl.shape[0]
    run = None if 0 in sub else tuple(tl.shape[2:])
    zh = list(th)
    for lev in range(J, 0, -1):                     # 1-based level, coarsest first
        s = None if lev in sub else th[lev - 1]
        if s is not None:
            run = (2 * s.shape[3], 2 * s.shape[4])  # cropped (or created) to twice the highpass size
        elif run is None:
            zh[lev - 1] = 'drop'                    # nothing above it either: the pyramid effectively starts below
        else:
            if run[0] % 2 or run[1] % 2:
                return None
            zh[lev - 1] = torch.zeros((n, 1, 6, run[0] // 2, run[1] // 2, 2), dtype=tl.dtype)
        if lev >= 2 and run is not None:
            run = (2 * run[0], 2 * run[1])
    zl = tl
    zh = [z for z in zh if not isinstance(z, str)]
    if not zh:
        return None
    if 0 in sub:
        # an absent lowpass is exact zeros of twice the coarsest remaining level's size
        top = zh[-1]
        zl = torch.zeros((n, 1, 2 * top.shape[3], 2 * top.shape[4]), dtype=tl.dtype)
    try:
        return inv((zl, zh)).numpy()
    except Exception:
        return None
