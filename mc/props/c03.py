"""C03 - DTCWT analysis equals the reference NumPy dual-tree implementation, on the DTCWT shape graph."""
import numpy as np

from .. import common, dtc
from ..common import Res, cmp_mats

PID = 'C03'
LEVEL = 'model_checking'
RULE = ('state = (level kind, lowpass shape); transitions: level 1 (edge-replicate odd sizes, biorthogonal filters) and level >= 2 '
        '(pad to a multiple of 4 in rows / columns / both / neither, q-shift filters, halve), executed by the real DTCWTForward; '
        'level-1 edges for the 4 biort tables on every (H,W) of the grid; paths for all 20 (biort,qshift) pairs, J = 1..closure+1 '
        '(the graph closes at (2,2)); complete impulse basis per start state; oracle: dtcwt.Transform2d.forward per impulse '
        '(lowpass of every level via include_scale, six orientations, real and imaginary parts, shapes); '
        'distinct_nontrivial = distinct non-zero extracted operators')
ASSUMPTIONS = ['C07 (linearity)', 'dtcwt 0.14 NumPy Transform2d is the reference model',
               'the reference\'s J-level result is the prefix of its Jmax-level result (sequential level loop; re-checked directly on a sample of states)']
CHUNK = 1


def jcap(tier):
    return 6 if tier == 'quick' else 8


def bounds(tier):
    return {'biort': dtc.BIORTS, 'qshift': dtc.QSHIFTS, 'level1_sizes': len(dtc.grid(tier, 'biort')),
            'path_sizes': len(dtc.grid(tier, 'pairs')), 'J': '1..closure+1 (cap %d)' % jcap(tier)}


def plan(tier):
    items = []
    for b in dtc.BIORTS:
        for (h, w) in dtc.grid(tier, 'biort'):
            items.append({'kind': 'level1', 'biort': b, 'qshift': 'qshift_a', 'h': h, 'w': w, 'jcap': 1})
    for (b, q) in dtc.PAIRS:
        for (h, w) in dtc.grid(tier, 'pairs'):
            items.append({'kind': 'path', 'biort': b, 'qshift': q, 'h': h, 'w': w, 'jcap': jcap(tier)})
    for (b, q) in dtc.BIG_PAIRS:
        for (h, w) in dtc.BIG:
            items.append({'kind': 'path', 'biort': b, 'qshift': q, 'h': h, 'w': w, 'jcap': jcap(tier)})
    # cheapest first is not needed; longest first balances the pool
    items.sort(key=lambda it: -(it['h'] * it['w'] * it['jcap']))
    return items


def required_regimes(tier):
    return {'l1:odd_rows', 'l1:odd_cols', 'l2+:pad_both', 'l2+:pad_rows_only', 'l2+:pad_cols_only', 'l2+:pad_none',
            'closure:self_loop', 'size:h!=w', 'image_smaller_than_filter', 'variant:N=1', 'variant:C=2', 'variant:no_grad', 'variant:inference_mode'}


def run(item):
    common.init_worker()
    res = Res()
    b, q, H, W = item['biort'], item['qshift'], item['h'], item['w']
    Jmax = min(item['jcap'], dtc.closure_depth(H, W, item['jcap']) + 1)
    P = H * W
    X = common.eye_batch((H, W))
    try:
        scales, highs = dtc.ref_forward(b, q, X[:, 0], Jmax)
    except Exception:
        res['ood'] += 1
        return res
    pth = dtc.path(H, W, Jmax)
    for J in range(1, Jmax + 1):
        cfg = {'biort': b, 'qshift': q, 'h': H, 'w': W, 'J': J}
        tags = [t for st in pth[:J] for t in st[4]]
        if H != W:
            tags.append('size:h!=w')
        if min(H, W) < 13:
            tags.append('image_smaller_than_filter')
        if J >= 2 and pth[J - 1][1] == pth[J - 1][2]:
            tags.append('closure:self_loop')
        for st in pth[:J]:
            res.state('l1' if st[0] == 1 else 'l2+', b if st[0] == 1 else q, st[1])
        res['impl_calls'] += 1
        try:
            yl, yh = dtc.impl_forward(b, q, X, J)
        except Exception as e:
            res.violation('analysis_vs_reference', cfg, {'kind': 'raise', 'exc': repr(e)[:200]}, tags)
            continue
        res['transitions'] += J
        res['evals'] += P
        res.regime(*tags)
        impl = [yl.numpy()[:, 0]] + [h.numpy()[:, 0] for h in yh]
        ref = [scales[J - 1]] + [highs[j] for j in range(J)]
        si = [list(a.shape[1:]) for a in impl]
        sr = [list(a.shape[1:]) for a in ref]
        if si != sr:
            res.violation('analysis_vs_reference', cfg, {'kind': 'band_shapes', 'observed': si, 'expected': sr}, tags)
            continue
        Ai = np.concatenate([a.reshape(P, -1) for a in impl], axis=1).T
        Ar = np.concatenate([a.reshape(P, -1) for a in ref], axis=1).T
        d = cmp_mats(Ai, Ar)
        if d is not None:
            res.violation('analysis_vs_reference', cfg, d, tags)
        res.op(Ai)
        if P <= 100:
            # a batch of one (N=1) and two channels (channel 1 = the basis in reverse order) reproduce the extracted rows
            try:
                l1, h1 = dtc.impl_forward(b, q, X[:1], J)
                l2, h2 = dtc.impl_forward(b, q, np.concatenate([X, X[::-1]], axis=1), J)
                res['impl_calls'] += 2
                res.regime('variant:N=1', 'variant:C=2')
                import torch as _t
                for ctxname, ctxm in (('no_grad', _t.no_grad), ('inference_mode', _t.inference_mode)):
                    with ctxm():
                        lg, hg = dtc.impl_forward(b, q, X, J)
                    res['impl_calls'] += 1
                    res.regime('variant:' + ctxname)
                    for a_, b_ in zip([lg] + list(hg), [yl] + list(yh)):
                        if a_.shape != b_.shape or not _t.equal(a_, b_):
                            res.violation('analysis_vs_reference', dict(cfg, variant=ctxname), {'kind': 'value_or_shape', 'what': 'result under %s differs from the result with autograd enabled' % ctxname}, tags)
                            break
                one = [l1.numpy()] + [t.numpy() for t in h1]
                two = [l2.numpy()] + [t.numpy() for t in h2]
                full = [yl.numpy()] + [t.numpy() for t in yh]
                for a1, a2, a in zip(one, two, full):
                    e2 = np.concatenate([a, a[::-1]], axis=1)
                    if a1.shape != a[:1].shape or common.maxabs(a1 - a[:1]) > common.TOL or a2.shape != e2.shape or common.maxabs(a2 - e2) > common.TOL * max(1.0, common.maxabs(e2)):
                        res.violation('analysis_vs_reference', dict(cfg, variant='N=1 / C=2'), {'kind': 'value_or_shape', 'shapes': [list(a1.shape), list(a2.shape)]}, tags)
                        break
            except Exception as e:
                res.violation('analysis_vs_reference', dict(cfg, variant='N=1 / C=2'), {'kind': 'raise', 'exc': repr(e)[:200]}, tags)
        if (H, W, J) in ((5, 6, 2), (7, 10, 3)):
            res.sample({'config': cfg, 'impulses': P, 'band_shapes': si, 'path': [[st[0], list(st[1]), list(st[2])] for st in pth[:J]]})
    # direct (non-prefix) reference call on a sample of states
    if (H * 7 + W) % 5 == 0 and Jmax >= 2:
        J = Jmax - 1
        sc2, hi2 = dtc.ref_forward(b, q, X[:, 0], J)
        if common.maxabs(sc2[J - 1] - scales[J - 1]) > 0 or any(common.maxabs(hi2[j] - highs[j]) > 0 for j in range(J)):
            res['notes'].append('reference_prefix_inconsistent')
            res.violation('reference_prefix', {'biort': b, 'qshift': q, 'h': H, 'w': W, 'J': J}, {'kind': 'reference'}, [])
    return res
