import warnings, time, sys, logging
logging.disable(logging.WARNING)
import numpy as np, torch, pywt
torch.set_default_dtype(torch.float64); torch.set_num_threads(1)
from pytorch_wavelets import DWTForward, DWTInverse
warnings.simplefilter('ignore')
modes=['zero','symmetric','reflect','periodic','periodization']
t0=time.time(); nconf=0; bad={}
waves=sys.argv[1].split(',') if len(sys.argv)>1 else ['db1','db2','bior2.4','sym5','coif17']
S=int(sys.argv[2]) if len(sys.argv)>2 else 9
for w in waves:
    L=pywt.Wavelet(w).dec_len
    for mode in modes:
      for J in (1,2,3):
        f=DWTForward(J=J,wave=w,mode=mode)
        for H in range(2,S+1):
          for W in range(2,S+1):
            X=np.eye(H*W).reshape(H*W,1,H,W)
            try: yl,yh=f(torch.tensor(X))
            except Exception as e:
                bad.setdefault((mode,'raise',type(e).__name__),[]).append((w,L,H,W,J)); continue
            try: co=pywt.wavedec2(X,w,mode=mode,level=J,axes=(-2,-1))
            except Exception as e: continue
            nconf+=1
            ok = yl.shape==co[0].shape and np.abs(yl.numpy()-co[0]).max()<1e-9
            for j in range(J):
                for b in range(3):
                    r=co[J-j][b]
                    ok = ok and yh[j][:,:,b].shape==r.shape and np.abs(yh[j][:,:,b].numpy()-r).max()<1e-9
            if not ok: bad.setdefault((mode,'diff'),[]).append((w,L,H,W,J))
print(nconf,time.time()-t0)
for k,v in bad.items():
    print(k,len(v),v[:5])
    if k[1]=='diff': print('  not-short', [x for x in v if min(x[2]+x[2]%2,x[3]+x[3]%2)>=x[1]*2**(x[4]-1)][:10])
