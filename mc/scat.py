"""Reference model of the DTCWT scattering layers: the formulas of C08 composed over the NumPy `dtcwt` reference.
The reference transform is linear, so its operators are extracted once per (filters, size) from the impulse basis and
applied by matrix product (validated against direct reference calls on dense images by the check)."""
import functools

import numpy as np


@functools.lru_cache(maxsize=64)
def ref_ops(biort, qshift, H, W, J):
    """Operators of the reference J-level DTCWT on (H,W): lows[j] (r*c, H*W) real, highs[j] (6*h*w, H*W) complex, shapes."""
    import dtcwt
    t = dtcwt.Transform2d(biort=biort, qshift=qshift)
    P = H * W
    lows = None
    for i in range(P):
        x = np.zeros(P)
        x[i] = 1.0
        p = t.forward(x.reshape(H, W), nlevels=J, include_scale=True)
        if lows is None:
            lows = [np.zeros((s.size, P)) for s in p.scales]
            highs = [np.zeros((h.size, P), dtype=complex) for h in p.highpasses]
            lsh = [s.shape for s in p.scales]
            hsh = [h.shape[:2] for h in p.highpasses]
        for j in range(J):
            lows[j][:, i] = p.scales[j].reshape(-1)
            highs[j][:, i] = np.moveaxis(p.highpasses[j], 2, 0).reshape(-1)         # orientation-major
    return lows, highs, lsh, hsh


def _pool2(a):
    """2x2 average pool over the last two axes."""
    return 0.25 * (a[..., 0::2, 0::2] + a[..., 1::2, 0::2] + a[..., 0::2, 1::2] + a[..., 1::2, 1::2])


def _mag(c, b, colour, axis_c):
    if colour:
        return np.sqrt((np.abs(c) ** 2).sum(axis=axis_c, keepdims=True) + b * b) - b
    return np.sqrt(np.abs(c) ** 2 + b * b) - b


def _level(X, biort, qshift, J):
    """X (B,C,H,W) -> per level lowpass (B,C,r,c) list and highs (B,C,6,h,w) complex list via the reference operators."""
    B, C, H, W = X.shape
    lows, highs, lsh, hsh = ref_ops(biort, qshift, H, W, J)
    xf = X.reshape(B * C, H * W)
    L = [(xf @ lows[j].T).reshape(B, C, *lsh[j]) for j in range(J)]
    Hh = [(xf @ highs[j].T).reshape(B, C, 6, *hsh[j]) for j in range(J)]
    return L, Hh


def extend_even(X):
    if X.shape[-2] % 2:
        X = np.concatenate([X, X[..., -1:, :]], axis=-2)
    if X.shape[-1] % 2:
        X = np.concatenate([X, X[..., -1:]], axis=-1)
    return X


def scat1_ref(X, biort, b, colour):
    """First-order layer: (B,C,H,W) -> (B,7C,H/2,W/2) band-major (colour: (B,3+6,..))."""
    X = extend_even(X)
    B, C = X.shape[:2]
    L, Hh = _level(X, biort, 'qshift_a' if not biort.endswith('_bp') else 'qshift_b_bp', 1)
    ll = _pool2(L[0])                                        # (B,C,h,w)
    r = _mag(Hh[0], b, colour, 1)                            # (B,C|1,6,h,w)
    if colour:
        return np.concatenate([ll, r[:, 0]], axis=1)
    r = np.moveaxis(r, 2, 1)                                 # (B,6,C,h,w)
    Z = np.concatenate([ll[:, None], r], axis=1)             # (B,7,C,h,w)
    return Z.reshape(B, 7 * C, Z.shape[-2], Z.shape[-1])


def scat2_ref(X, biort, qshift, b, colour):
    """Second-order two-scale layer on multiple-of-8 images: (B,C,H,W) -> (B,49C,H/4,W/4) (colour: 3+6+6+36 channels)."""
    B, C, H, W = X.shape
    L, Hh = _level(X, biort, qshift, 2)
    s0 = _pool2(L[1])                                        # (B,C,H/4,W/4)
    m1 = _mag(Hh[0], b, colour, 1)                           # (B,C|1,6,H/2,W/2)
    m2 = _mag(Hh[1], b, colour, 1)                           # (B,C|1,6,H/4,W/4)
    Cm = m1.shape[1]
    # second order: level-1 transform of every first-order magnitude image
    m1i = m1.reshape(B, Cm * 6, H // 2, W // 2)
    L1, H1 = _level(m1i, biort, qshift, 1)
    s1_j1 = _pool2(L1[0]).reshape(B, Cm, 6, H // 4, W // 4)              # (B,Cm,6(o1),h,w)
    s2 = _mag(H1[0], b, False, 1).reshape(B, Cm, 6, 6, H // 4, W // 4)  # (B,Cm,o1,o2,h,w)
    if colour:
        s2 = np.moveaxis(s2[:, 0], 2, 1).reshape(B, 36, H // 4, W // 4)          # index o2*6+o1
        return np.concatenate([s0, s1_j1[:, 0], m2[:, 0], s2], axis=1)
    s1 = np.moveaxis(s1_j1, 1, 2)                            # (B,6,C,h,w)
    m2 = np.moveaxis(m2, 1, 2)                               # (B,6,C,h,w)
    s2 = np.transpose(s2, (0, 3, 2, 1, 4, 5)).reshape(B, 36, C, H // 4, W // 4)  # (B,o2*6+o1,C,h,w)
    Z = np.concatenate([s0[:, None], s1, m2, s2], axis=1)    # (B,49,C,h,w)
    return Z.reshape(B, 49 * C, H // 4, W // 4)
