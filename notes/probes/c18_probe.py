import warnings, logging, os
logging.disable(logging.WARNING); warnings.simplefilter('ignore')
import numpy as np
import pytorch_wavelets.dtcwt.coeffs as mc
import dtcwt.coeffs as rc
d=os.path.dirname(mc.__file__)+'/data'
for fn in sorted(os.listdir(d)):
    if not fn.endswith('.npz'): continue
    m=dict(np.load(d+'/'+fn))
    rp=os.path.dirname(rc.__file__)+'/data/'+fn
    if os.path.exists(rp):
        r=dict(np.load(rp))
        same = set(m)==set(r) and all(m[k].shape==r[k].shape and np.array_equal(m[k],r[k]) for k in m)
    else: same='no-ref'
    print(fn, sorted(m.keys()), {k:m[k].shape for k in list(m)[:2]}, 'equal ref:',same)
# identities
def conv(a,b): return np.convolve(a.ravel(),b.ravel())
for name in ['antonini','legall','near_sym_a','near_sym_b','near_sym_b_bp']:
    t=mc.biort(name); h0,g0,h1,g1=[x.ravel() for x in t[:4]]
    sym=all(np.allclose(x,x[::-1]) for x in [v.ravel() for v in t])
    # PR: h0*g0 + h1*g1 = 2 delta (up to delay)?
    p=conv(h0,g0); q=conv(h1,g1)
    n=max(len(p),len(q)); pp=np.zeros(n); qq=np.zeros(n)
    pp[(n-len(p))//2:(n-len(p))//2+len(p)]=p; qq[(n-len(q))//2:(n-len(q))//2+len(q)]=q
    s=pp+qq
    print(name,'sym',sym,'lens',[len(x.ravel()) for x in t],'PR sum centre',s[n//2], 'others max',np.abs(np.delete(s,n//2)).max())
for name in ['qshift_06','qshift_a','qshift_b','qshift_c','qshift_d','qshift_b_bp']:
    t=mc.qshift(name); h0a,h0b,g0a,g0b,h1a,h1b,g1a,g1b=[x.ravel() for x in t[:8]]
    print(name,len(h0a),'b=rev a',np.allclose(h0b,h0a[::-1]),np.allclose(h1b,h1a[::-1]),'g=rev h',np.allclose(g0a,h0a[::-1]),np.allclose(g1a,h1a[::-1]),np.allclose(g0b,h0b[::-1]),
      'orthonorm', np.allclose(np.dot(h0a,h0a),1), [round(float(np.dot(h0a[2*k:],h0a[:len(h0a)-2*k])),8) for k in range(1,3)], round(float(np.dot(h0a,h1a)),8))
    if len(t)>8:
        h2a,h2b,g2a,g2b=[x.ravel() for x in t[8:]]
        print('   bp:',np.allclose(h2b,h2a[::-1]),np.allclose(g2a,h2a[::-1]),np.allclose(g2b,h2b[::-1]))
a=mc.qshift('qshift_a')[0]; b=mc.qshift('qshift_a')[0]; print('same object handed out:', a is b)
