import warnings, itertools, time, logging
logging.disable(logging.WARNING)
import numpy as np, torch
torch.set_default_dtype(torch.float64)
warnings.simplefilter('ignore')
from pytorch_wavelets import DTCWTForward, DTCWTInverse
bad={}
b,q='near_sym_a','qshift_a'
for J in (1,2,3):
  f=DTCWTForward(biort=b,qshift=q,J=J); inv=DTCWTInverse(biort=b,qshift=q)
  for H,W in [(8,8),(16,16),(10,12),(12,10),(7,9),(20,24),(18,18),(6,6)]:
    x=torch.randn(1,2,H,W)
    yl,yh=f(x)
    yl=torch.randn_like(yl); yh=[torch.randn_like(h) for h in yh]
    absent_sets=[s for r in range(0,J+2) for s in itertools.combinations(range(-1,J),r)]
    for s in absent_sets:
        for kind in ('none','empty'):
            rep=(lambda t: None) if kind=='none' else (lambda t: torch.tensor([]))
            l2 = rep(yl) if -1 in s else yl
            h2=[rep(h) if j in s else h for j,h in enumerate(yh)]
            l3 = torch.zeros_like(yl) if -1 in s else yl
            h3=[torch.zeros_like(h) if j in s else h for j,h in enumerate(yh)]
            ref=inv((l3,h3))
            try:
                out=inv((l2,h2))
                if out.shape!=ref.shape: bad.setdefault((kind,'shape'),[]).append((J,H,W,s,tuple(out.shape),tuple(ref.shape)))
                elif (out-ref).abs().max()>1e-9: bad.setdefault((kind,'diff'),[]).append((J,H,W,s))
            except Exception as e:
                bad.setdefault((kind,'raise',type(e).__name__,str(e)[:60]),[]).append((J,H,W,s))
for k,v in bad.items(): print(k,len(v),v[:10])
