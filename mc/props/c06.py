"""C06 - DTCWT back-propagation is the exact adjoint (forward and inverse, layouts, masks, grad subsets)."""
import itertools

import numpy as np

from .. import common, dtc, jac
from ..common import Res, cmp_mats

PID = 'C06'
LEVEL = 'exploration'
RULE = ('configuration lattice: 20 filter pairs x J<=3 x size sub-grid (all parities, residues mod 4) with the default layout; all 30 '
        'positive (o_dim, ri_dim) layouts on one size per pair; all skip_hps masks x all include_scale masks for J<=2 (J=3: each level '
        'singly). For DTCWTForward the operator A is extracted from the forward pass on the impulse basis (skipped levels contribute '
        'no rows, requested intermediate lowpasses contribute their own rows) and G from all unit cotangents by batched autograd; '
        'oracle G = A^T. For DTCWTInverse S is extracted on the complete coefficient basis and G_S from all unit cotangents; oracle '
        'G_S = S^T; then every non-empty proper subset of {lowpass, highs[0..J-1]} requiring grad receives its block. '
        'distinct_nontrivial = distinct non-zero back-propagated matrices')
ASSUMPTIONS = ['C07 (linearity)', 'oracle is the transpose of the operator extracted from the implementation\'s own forward pass']
CHUNK = 1


def sizes(tier):
    g = [2, 3, 4, 5, 6, 8] if tier == 'quick' else [2, 3, 4, 5, 6, 7, 8, 10, 12]
    return [(h, w) for h in g for w in g]


def bounds(tier):
    return {'pairs': 20, 'J': '1..3', 'sizes': len(sizes(tier)), 'layouts': 30, 'masks': 'all for J<=2, single levels for J=3'}


def plan(tier):
    items = []
    lay = [(o, r) for o in range(6) for r in range(6) if o != r]
    for pi, (b, q) in enumerate(dtc.PAIRS):
        for (h, w) in sizes(tier):
            for J in (1, 2, 3):
                items.append({'biort': b, 'qshift': q, 'h': h, 'w': w, 'J': J, 'layouts': [[2, -1]], 'masks': 'none', 'subsets': h * w <= 36})
        h, w = [(6, 8), (5, 6), (8, 4), (7, 7)][pi % 4]
        for i in range(0, 30, 10):
            items.append({'biort': b, 'qshift': q, 'h': h, 'w': w, 'J': 2, 'layouts': lay[i:i + 10], 'masks': 'none', 'subsets': False})
        items.append({'biort': b, 'qshift': q, 'h': h, 'w': w, 'J': 1 + pi % 3, 'layouts': [[2, -1]], 'masks': 'all', 'subsets': False})
        # two channels (per-channel filter stacking in the backward passes), with all grad subsets
        items.append({'biort': b, 'qshift': q, 'h': [4, 5, 6, 3][pi % 4], 'w': [6, 5, 4, 4][pi % 4], 'J': 1 + pi % 2, 'layouts': [[2, -1]], 'masks': 'none', 'subsets': True, 'C': 2})
    return items


def required_regimes(tier):
    return {'l1:odd_rows', 'l1:odd_cols', 'l2+:pad_both', 'l2+:pad_rows_only', 'l2+:pad_cols_only', 'l2+:pad_none', 'layout:nondefault',
            'skip:some', 'include:some', 'subset:lowpass_only', 'subset:highs_only', 'subset:finest_only', 'channels:2', 'masks:list', 'masks:tuple', 'masks:ndarray'}


def run(item):
    common.init_worker()
    import torch
    from pytorch_wavelets import DTCWTForward, DTCWTInverse
    res = Res()
    b, q, H, W, J = item['biort'], item['qshift'], item['h'], item['w'], item['J']
    C = int(item.get('C', 1))
    P = H * W * C
    ptags = [t for st in dtc.path(H, W, J) for t in st[4]]
    if item['masks'] == 'all':
        ms = list(itertools.product([False, True], repeat=J))
        combos = [(s, i) for s in ms for i in ms] if J <= 2 else \
            [(tuple(k == j for k in range(J)), tuple([False] * J)) for j in range(J)] + \
            [(tuple([False] * J), tuple(k == j for k in range(J))) for j in range(J)] + [(tuple([False] * J), tuple([False] * J))]
    else:
        combos = [(tuple([False] * J), tuple([False] * J))]
    for (o, r) in item['layouts']:
        for skip, inc in combos:
            cfg = {'biort': b, 'qshift': q, 'h': H, 'w': W, 'J': J, 'o_dim': o, 'ri_dim': r, 'skip_hps': [bool(x) for x in skip],
                   'include_scale': [bool(x) for x in inc], 'C': C}
            tags = list(ptags) + (['channels:2'] if C == 2 else [])
            if (o % 6, r % 6) != (2, 5):
                tags.append('layout:nondefault')
            if any(skip):
                tags.append('skip:some')
            if any(inc):
                tags.append('include:some')
            ci = (len(res['states']) + J) % 3
            cont = [list, tuple, lambda v: np.array(v, dtype=bool)][ci]
            cfg['mask_container'] = ['list', 'tuple', 'ndarray'][ci]
            tags.append('masks:' + cfg['mask_container'])
            fwd = DTCWTForward(biort=b, qshift=q, J=J, o_dim=o, ri_dim=r, skip_hps=cont(skip), include_scale=cont(inc))

            npos = [d for d in range(6) if d != o % 6 and d != r % 6][0]     # where the batch axis of a subband sits

            def f(x, fwd=fwd, npos=npos):
                yl, yh = fwd(x)
                yh = [t if t.dim() < 6 else torch.movedim(t, npos, 0) for t in yh]   # batch first for the extractor
                return (list(yl) if isinstance(yl, (list, tuple)) else [yl]) + yh

            x0 = torch.zeros((1, C, H, W))
            res.state(b, q, H, W, J, o, r, skip, inc)
            try:
                A, bshapes = jac.forward_matrix(f, [x0])
                G, M = jac.vjp_matrices(f, [x0], [True])
            except Exception as e:
                res.violation('fwd_backward_is_adjoint', cfg, {'kind': 'raise', 'exc': repr(e)[:200]}, tags)
                continue
            res['impl_calls'] += 2
            res['evals'] += P + M
            res.regime(*tags)
            if G[0] is None:
                res.violation('fwd_backward_is_adjoint', cfg, {'kind': 'no_gradient'}, tags)
            else:
                d = cmp_mats(G[0], A.T)
                if d is not None:
                    res.violation('fwd_backward_is_adjoint', cfg, d, tags)
                res.op(G[0])
            if any(skip) or any(inc):
                continue
            # ---- inverse on the forward-compatible pyramid (same layout)
            inv = DTCWTInverse(biort=b, qshift=q, o_dim=o, ri_dim=r)
            base = [torch.zeros((1,) + s) for s in bshapes]
            nb = len(base)

            def g(yl, *yh, inv=inv, npos=npos):
                return [inv((yl, [torch.movedim(t, 0, npos) for t in yh]))]

            try:
                S, _ = jac.forward_matrix(g, base)
                GS, M = jac.vjp_matrices(g, base, [True] * nb)
            except Exception as e:
                res.violation('inv_backward_is_adjoint', cfg, {'kind': 'raise', 'exc': repr(e)[:200]}, tags)
                continue
            res['impl_calls'] += 2
            res['evals'] += S.shape[1] + M
            if any(x is None for x in GS):
                res.violation('inv_backward_is_adjoint', cfg, {'kind': 'no_gradient', 'args': [i for i, x in enumerate(GS) if x is None]}, tags)
                continue
            Gf = np.concatenate(GS, axis=0)
            d = cmp_mats(Gf, S.T)
            if d is not None:
                res.violation('inv_backward_is_adjoint', cfg, d, tags)
            res.op(Gf)
            if item['subsets']:
                for rr in range(1, nb):
                    for sub in itertools.combinations(range(nb), rr):
                        req = [i in sub for i in range(nb)]
                        scfg = dict(cfg, requires_grad=['lowpass' if i == 0 else 'highs[%d]' % (i - 1) for i in sub])
                        stags = list(tags)
                        if sub == (0,):
                            stags.append('subset:lowpass_only')
                        if 0 not in sub:
                            stags.append('subset:highs_only')
                        if sub == (1,):
                            stags.append('subset:finest_only')
                        try:
                            Gs, _ = jac.vjp_matrices(g, base, req)
                        except Exception as e:
                            res.violation('grad_subset', scfg, {'kind': 'raise', 'exc': repr(e)[:200]}, stags)
                            continue
                        res['impl_calls'] += 1
                        res['evals'] += M
                        res.regime(*[t for t in stags if t.startswith('subset:')])
                        for i in sub:
                            if Gs[i] is None:
                                res.violation('grad_subset', scfg, {'kind': 'no_gradient', 'arg': i}, stags)
                                break
                            dd = cmp_mats(Gs[i], GS[i])
                            if dd is not None:
                                dd['arg'] = i
                                res.violation('grad_subset', scfg, dd, stags)
                                break
            if (H, W, J) == (6, 8, 2) and (o, r) == (2, -1):
                res.sample({'config': cfg, 'cotangents_forward': int(A.shape[0]), 'cotangents_inverse': int(M), 'grad_subsets': 2 ** nb - 2})
    return res
