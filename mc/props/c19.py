"""C19 - the non-separable one-level 2-D filter bank equals the separable one (analysis and synthesis)."""
import itertools

import numpy as np

from .. import common, dwt
from ..common import Res, cmp_mats
from . import c14

PID = 'C19'
LEVEL = 'model_checking'
RULE = ('wavelets (2-filter form) and ordered pairs of distinct wavelets (4-filter form) x modes {zero, symmetric, reflect, '
        'periodization} x size grid; analysis: complete impulse basis through lowlevel.afb2d_nonsep and lowlevel.afb2d; '
        'synthesis: complete basis over the (4,h,w) coefficient tensor of the analysis output shape through sfb2d_nonsep '
        'and sfb2d; a case is in the domain when the separable function returns; distinct_nontrivial = distinct non-zero '
        'operators of the non-separable bank')
ASSUMPTIONS = ['C07 (linearity)', 'the separable functional API is the reference model (it is itself decided by C01/C10/C14)']
MODES = ['zero', 'symmetric', 'reflect', 'periodization']
CHUNK = 2


def grid(L, tier):
    if tier == 'quick':
        if L <= 10:
            return [(h, w) for h in range(2, 11) for w in range(2, 11)]
        if L <= 24:
            return dwt.sizes_2d(L, 'quick')
        hs = [2, 3, L - 1, L]
        return sorted(set([(h, 2) for h in hs] + [(3, h) for h in hs]))
    if L <= 12:
        return [(h, w) for h in range(2, 15) for w in range(2, 15)]
    if L <= 24:
        hs = sorted(set(list(range(2, 6)) + list(range(L - 2, L + 4)) + list(range(2 * L - 1, 2 * L + 3))))
        return sorted(set([(h, w) for h in hs for w in (2, 3)] + [(w, h) for h in hs for w in (2, 3)]))
    hs = [2, 3, L - 1, L, L + 1]
    return sorted(set([(h, 2) for h in hs] + [(3, h) for h in hs]))


def bounds(tier):
    return {'wavelets_2filter': len(dwt.wavelets(tier)), 'pairs_4filter': len(c14.POOL) * (len(c14.POOL) - 1), 'modes': MODES,
            'sizes': 'grid [2..10]^2 (L<=10) / regime cross' if tier == 'quick' else 'grid [2..14]^2 (L<=12) / crosses'}


def plan(tier):
    items = []
    for w in dwt.wavelets(tier):
        L = dwt.flen(w)
        g = grid(L, tier)
        for mode in MODES:
            k = 27 if L <= 12 else (6 if L <= 24 else 1)
            for i in range(0, len(g), k):
                items.append({'form': 2, 'col': w, 'row': w, 'mode': mode, 'sizes': g[i:i + k]})
    sz = [(h, w) for h in (2, 3, 4, 5, 8, 11) for w in (2, 3, 4, 5, 8, 11)] if tier == 'quick' else \
        [(h, w) for h in range(2, 13) for w in range(2, 13)]
    for a, b in itertools.permutations(c14.POOL, 2):
        for mode in MODES:
            items.append({'form': 4, 'col': a, 'row': b, 'mode': mode, 'sizes': sz})
    return items


def required_regimes(tier):
    need = {'form:2', 'form:4', 'analysis', 'synthesis', 'size:odd', 'size:h!=w', 'channels:2'}
    for m in MODES:
        need.add('mode:' + m)
    need |= {'periodization:short', 'zero:short', 'symmetric:short'}
    return need


def run(item):
    common.init_worker()
    import torch
    import pywt
    from pytorch_wavelets.dwt import lowlevel
    res = Res()
    mode = item['mode']
    c, r = pywt.Wavelet(item['col']), pywt.Wavelet(item['row'])
    Lc, Lr = c.dec_len, r.dec_len
    if item['form'] == 2:
        fa, fs = (c.dec_lo, c.dec_hi), (c.rec_lo, c.rec_hi)
    else:
        fa, fs = (c.dec_lo, c.dec_hi, r.dec_lo, r.dec_hi), (c.rec_lo, c.rec_hi, r.rec_lo, r.rec_hi)
    for (h, w) in item['sizes']:
        cfg = {'form': item['form'], 'col': item['col'], 'row': item['row'], 'mode': mode, 'h': h, 'w': w}
        tags = ['form:%d' % item['form'], 'mode:' + mode]
        if h % 2 or w % 2:
            tags.append('size:odd')
        if h != w:
            tags.append('size:h!=w')
        if h + h % 2 < Lc or w + w % 2 < Lr:
            tags.append(mode + ':short')
        res.state(item['col'], item['row'], mode, h, w)
        X = torch.as_tensor(common.eye_batch((h, w)))
        try:
            ys = lowlevel.afb2d(X, fa, mode=mode)
        except Exception:
            res['ood'] += 1
            continue
        res['transitions'] += 1
        res['evals'] += h * w
        P = h * w
        # a dense conv with Lc x Lr kernels unfolds to (batch x Lc*Lr x out_h*out_w) doubles: chunk the impulse batch and
        # skip (counted) what would still need more than ~4e9 multiply-adds
        per = Lc * Lr * ((h + 2 * Lc) // 2 + 1) * ((w + 2 * Lr) // 2 + 1)
        if P * per > 4e9:
            res['extra']['analysis_cases_over_cost_cap'] = res['extra'].get('analysis_cases_over_cost_cap', 0) + 1
            continue
        step = max(1, int(3e7 // per))
        try:
            yn = torch.cat([lowlevel.afb2d_nonsep(X[i:i + step], fa, mode=mode) for i in range(0, P, step)], dim=0)
            res['impl_calls'] += 1
        except Exception as e:
            res.violation('afb2d_nonsep_vs_afb2d', cfg, {'kind': 'raise', 'exc': repr(e)[:200]}, tags)
            yn = None
        res.regime('analysis', *tags)
        if yn is not None:
            ys5 = ys.reshape(P, 1, 4, ys.shape[-2], ys.shape[-1]).numpy()
            if yn.numel() != ys.numel() or tuple(yn.shape[-2:]) != tuple(ys.shape[-2:]):
                res.violation('afb2d_nonsep_vs_afb2d', cfg, {'kind': 'shape', 'observed': list(yn.shape[1:]),
                                                             'expected': list(ys.shape[1:])}, tags)
            else:
                yn5 = yn.reshape(P, 1, 4, yn.shape[-2], yn.shape[-1]).numpy()
                d = cmp_mats(yn5.reshape(P, -1).T, ys5.reshape(P, -1).T)
                if d is not None:
                    res.violation('afb2d_nonsep_vs_afb2d', cfg, d, tags)
                res.op(yn5.reshape(P, -1))
        # two channels at once: channel 1 carries the impulses in reverse order (grouped-convolution weight stacking)
        if P <= 144 and Lc * Lr <= 144:
            X2 = torch.cat([X, X.flip(0)], dim=1)
            try:
                a2 = lowlevel.afb2d(X2, fa, mode=mode)
                n2 = lowlevel.afb2d_nonsep(X2, fa, mode=mode)
                res['impl_calls'] += 1
                res['evals'] += P
                res.regime('channels:2')
                d = cmp_mats(n2.reshape(P, -1).numpy(), a2.reshape(P, -1).numpy()) if n2.numel() == a2.numel() else {'kind': 'shape'}
                if d is not None:
                    res.violation('afb2d_nonsep_vs_afb2d', dict(cfg, channels=2), d, tags)
                c2 = a2.reshape(P, 2, 4, a2.shape[-2], a2.shape[-1])
                z2 = lowlevel.sfb2d(c2[:, :, 0], c2[:, :, 1], c2[:, :, 2], c2[:, :, 3], fs, mode=mode)
                zn2 = lowlevel.sfb2d_nonsep(c2, fs, mode=mode)
                d = cmp_mats(zn2.reshape(P, -1).numpy(), z2.reshape(P, -1).numpy()) if zn2.shape == z2.shape else {'kind': 'shape'}
                if d is not None:
                    res.violation('sfb2d_nonsep_vs_sfb2d', dict(cfg, channels=2), d, tags)
            except Exception as e:
                res.violation('afb2d_nonsep_vs_afb2d', dict(cfg, channels=2), {'kind': 'raise', 'exc': repr(e)[:200]}, tags)
        # synthesis on the complete coefficient basis of the analysis output shape
        hh, ww = int(ys.shape[-2]), int(ys.shape[-1])
        Q = 4 * hh * ww
        if Q > 1600:
            res['extra']['coefficient_bases_over_cap'] = res['extra'].get('coefficient_bases_over_cap', 0) + 1
            continue
        C = torch.as_tensor(np.eye(Q).reshape(Q, 1, 4, hh, ww))
        try:
            zs = lowlevel.sfb2d(C[:, :, 0], C[:, :, 1], C[:, :, 2], C[:, :, 3], fs, mode=mode)
        except Exception:
            res['ood'] += 1
            continue
        # one dense conv_transpose with Lc x Lr kernels unfolds to (batch x Lc*Lr x hh*ww) doubles: chunk the basis and
        # skip (counted) what would still need more than ~4e9 multiply-adds
        per = Lc * Lr * hh * ww
        if Q * per > 4e9:
            res['extra']['synthesis_cases_over_cost_cap'] = res['extra'].get('synthesis_cases_over_cost_cap', 0) + 1
            continue
        step = max(1, int(3e7 // per))
        res['transitions'] += 1
        res['evals'] += Q
        res.regime('synthesis')
        try:
            zn = torch.cat([lowlevel.sfb2d_nonsep(C[i:i + step], fs, mode=mode) for i in range(0, Q, step)], dim=0)
            res['impl_calls'] += 1
        except Exception as e:
            res.violation('sfb2d_nonsep_vs_sfb2d', cfg, {'kind': 'raise', 'exc': repr(e)[:200]}, tags)
            continue
        if tuple(zn.shape) != tuple(zs.shape):
            res.violation('sfb2d_nonsep_vs_sfb2d', cfg, {'kind': 'shape', 'observed': list(zn.shape[1:]),
                                                         'expected': list(zs.shape[1:])}, tags)
            continue
        d = cmp_mats(zn.numpy().reshape(Q, -1).T, zs.numpy().reshape(Q, -1).T)
        if d is not None:
            res.violation('sfb2d_nonsep_vs_sfb2d', cfg, d, tags)
        res.op(zn.numpy().reshape(Q, -1))
        if (h, w) == (5, 8):
            res.sample({'config': cfg, 'impulses': P, 'coefficient_basis': Q, 'subband_shape': [hh, ww]})
    return res
