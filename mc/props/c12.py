"""C12 - DTCWT options only re-arrange or select outputs; pyramids are prefix-consistent."""
import itertools

import numpy as np

from .. import common, dtc
from ..common import Res, cmp_mats

PID = 'C12'
LEVEL = 'exploration'
RULE = ('complete enumeration: all 120 signed (o_dim, ri_dim) pairs in [-6..5]^2 with distinct residues mod 6 x J<=3 x all 2^J skip_hps '
        'masks x all 2^J include_scale masks (full product on one size/filter pair; layouts alone and masks alone on the other sizes '
        'and pairs); complete impulse basis, so equalities are equalities of operators. Reference model: the default-layout output with '
        'the orientation axis moved to o_dim%6 and the real/imag axis to ri_dim%6 (other axes N,C,H,W in order), bit-identical; '
        'DTCWTInverse(o_dim, ri_dim) on that layout equals the default inverse; a skipped level is an empty placeholder and nothing '
        'else changes; include_scale[j] returns the lowpass of the (j+1)-level transform; the first j levels of the J-level output '
        'equal the j-level output. distinct_nontrivial = distinct (layout, masks, J, size, pair) cases whose outputs were compared')
ASSUMPTIONS = ['C07 (linearity): the impulse basis decides equality for all inputs']
CHUNK = 2


def layouts():
    return [(o, r) for o in range(-6, 6) for r in range(-6, 6) if (o - r) % 6 != 0]


def sizes(tier):
    return [(6, 8), (5, 7), (8, 12), (4, 4), (7, 10), (12, 6)] if tier == 'quick' else \
        [(6, 8), (5, 7), (8, 12), (4, 4), (7, 10), (12, 6), (2, 2), (3, 9), (16, 10), (9, 16), (13, 13)]


def pairs(tier):
    return [('near_sym_a', 'qshift_a'), ('antonini', 'qshift_c')] if tier == 'quick' else dtc.PAIRS


def bounds(tier):
    return {'layouts': len(layouts()), 'J': '1..%d' % (3 if tier == 'quick' else 4), 'sizes': sizes(tier), 'pairs': len(pairs(tier))}


def plan(tier):
    items = []
    Js = [1, 2, 3] if tier == 'quick' else [1, 2, 3, 4]
    lay = layouts()
    # full product layouts x skip x include on one size / pair
    b, q = pairs(tier)[0]
    for J in Js:
        for i in range(0, len(lay), 6):
            items.append({'kind': 'product', 'biort': b, 'qshift': q, 'h': 6, 'w': 8, 'J': J, 'layouts': lay[i:i + 6]})
    # layouts alone on every size (first pair) and on one size for every pair
    for (h, w) in sizes(tier)[1:]:
        for J in Js:
            for i in range(0, len(lay), 30):
                items.append({'kind': 'layouts', 'biort': b, 'qshift': q, 'h': h, 'w': w, 'J': J, 'layouts': lay[i:i + 30]})
    for (b2, q2) in pairs(tier)[1:]:
        for i in range(0, len(lay), 30):
            items.append({'kind': 'layouts', 'biort': b2, 'qshift': q2, 'h': 7, 'w': 10, 'J': 2, 'layouts': lay[i:i + 30]})
    # masks + prefix consistency with the default layout on every size x pair
    for (b2, q2) in pairs(tier):
        for (h, w) in sizes(tier):
            for J in Js:
                items.append({'kind': 'masks', 'biort': b2, 'qshift': q2, 'h': h, 'w': w, 'J': J, 'layouts': [(2, -1)]})
    return items


def required_regimes(tier):
    return {'layout:negative_alias', 'layout:o_after_ri', 'layout:ri_before_spatial', 'skip:some', 'skip:all', 'include:some',
            'include:all', 'prefix', 'inverse_layout', 'odd_size', 'skip+include', 'masks:list', 'masks:tuple', 'masks:ndarray', 'variant:no_grad'}


def expected_layout(D, o, r):
    """Reference model: move the orientation axis (2) and real/imag axis (5) of the default (N,C,6,H,W,2) tensor."""
    o6, r6 = o % 6, r % 6
    rest = [0, 1, 3, 4]
    perm = []
    k = 0
    for pos in range(6):
        if pos == o6:
            perm.append(2)
        elif pos == r6:
            perm.append(5)
        else:
            perm.append(rest[k])
            k += 1
    return np.ascontiguousarray(np.transpose(D, perm))


def _is_placeholder(t):
    return t.dim() == 0 or t.numel() == 0


def run(item):
    common.init_worker()
    import torch
    from pytorch_wavelets import DTCWTForward, DTCWTInverse
    res = Res()
    b, q, H, W, J = item['biort'], item['qshift'], item['h'], item['w'], item['J']
    X = torch.as_tensor(common.eye_batch((H, W)))
    X = torch.cat([X, X.flip(0)], dim=1)              # two channels (channel 1 carries the basis in reverse order)
    P = H * W
    base_tags = ['odd_size'] if (H % 2 or W % 2) else []
    try:
        yl0, yh0 = DTCWTForward(biort=b, qshift=q, J=J)(X)
        D = [t.numpy() for t in yh0]
        inv0 = DTCWTInverse(biort=b, qshift=q)((yl0, yh0)).numpy()
    except Exception as e:
        res.violation('inverse_layout', {'biort': b, 'qshift': q, 'h': H, 'w': W, 'J': J, 'o_dim': 2, 'ri_dim': -1, 'what': 'default-layout forward+inverse'},
                      {'kind': 'raise', 'exc': repr(e)[:200]}, base_tags)
        return res
    lows = {}
    for j in range(1, J + 1):
        if j == J:
            lows[j] = (yl0.numpy(), D)
        else:
            a, bb = DTCWTForward(biort=b, qshift=q, J=j)(X)
            lows[j] = (a.numpy(), [t.numpy() for t in bb])
    res['impl_calls'] += J + 1
    masks = list(itertools.product([False, True], repeat=J))
    for (o, r) in item['layouts']:
        for ti, t in enumerate([tuple(x) for x in item['layouts'] if tuple(x) == (o, r)][:1]):
            pass
        o, r = int(o), int(r)
        ltags = list(base_tags)
        if o < 0 or r < 0:
            ltags.append('layout:negative_alias')
        if o % 6 > r % 6:
            ltags.append('layout:o_after_ri')
        if r % 6 < 4:
            ltags.append('layout:ri_before_spatial')
        combos = [(tuple([False] * J), tuple([False] * J))]
        if item['kind'] == 'product':
            combos = [(s, i) for s in masks for i in masks]
        elif item['kind'] == 'masks':
            combos = [(s, tuple([False] * J)) for s in masks] + [(tuple([False] * J), i) for i in masks]
        for skip, inc in combos:
            cfg = {'biort': b, 'qshift': q, 'h': H, 'w': W, 'J': J, 'o_dim': o, 'ri_dim': r,
                   'skip_hps': [bool(x) for x in skip], 'include_scale': [bool(x) for x in inc]}
            tags = list(ltags)
            if any(skip):
                tags.append('skip:all' if all(skip) else 'skip:some')
            if any(inc):
                tags.append('include:all' if all(inc) else 'include:some')
            if any(skip) and any(inc):
                tags.append('skip+include')
            res.state(b, q, H, W, J, o, r, skip, inc)
            res['impl_calls'] += 1
            res['evals'] += P
            # the masks are given in rotating container types (list, tuple, ndarray of bools), single bools when uniform
            ci = (len(res['states']) + J) % 3
            cont = [list, tuple, lambda v: np.array(v, dtype=bool)][ci]
            cfg['mask_container'] = ['list', 'tuple', 'ndarray'][ci]
            tags.append('masks:' + cfg['mask_container'])
            skip_arg, inc_arg = cont(skip), cont(inc)
            if ci == 1 and len(set(skip)) == 1:
                skip_arg = bool(skip[0])
            if ci == 1 and len(set(inc)) == 1:
                inc_arg = bool(inc[0])
            try:
                yl, yh = DTCWTForward(biort=b, qshift=q, J=J, o_dim=o, ri_dim=r, skip_hps=skip_arg, include_scale=inc_arg)(X)
            except Exception as e:
                res.violation('forward_options', cfg, {'kind': 'raise', 'exc': repr(e)[:200]}, tags)
                continue
            res.regime(*tags)
            res['ophashes'].append(common.sha(cfg))
            try:
                with torch.no_grad():
                    yl_n, yh_n = DTCWTForward(biort=b, qshift=q, J=J, o_dim=o, ri_dim=r, skip_hps=skip_arg, include_scale=inc_arg)(X)
                same = len(yh_n) == len(yh) and all(a_.shape == b_.shape and torch.equal(a_, b_) for a_, b_ in zip(yh_n, yh))
                ln, lg = (list(yl_n) if isinstance(yl_n, (list, tuple)) else [yl_n]), (list(yl) if isinstance(yl, (list, tuple)) else [yl])
                same = same and len(ln) == len(lg) and all(a_.shape == b_.shape and torch.equal(a_, b_) for a_, b_ in zip(ln, lg))
                res.regime('variant:no_grad')
                if not same:
                    res.violation('forward_options', dict(cfg, variant='no_grad'), {'kind': 'value_or_shape', 'what': 'result under no_grad differs from the result with autograd enabled'}, tags)
                    continue
            except Exception as e:
                res.violation('forward_options', dict(cfg, variant='no_grad'), {'kind': 'raise', 'exc': repr(e)[:200]}, tags)
                continue
            bad = None
            # highpasses: layout / skip
            if not isinstance(yh, (list, tuple)) or len(yh) != J:
                bad = {'kind': 'structure', 'what': 'yh is not a list of length J'}
            else:
                for j in range(J):
                    if skip[j]:
                        if not _is_placeholder(yh[j]):
                            bad = {'kind': 'skip_not_empty', 'level': j + 1, 'shape': list(yh[j].shape)}
                            break
                    else:
                        E = expected_layout(D[j], o, r)
                        G = yh[j].numpy()
                        if G.shape != E.shape:
                            bad = {'kind': 'shape', 'level': j + 1, 'observed': list(G.shape), 'expected': list(E.shape)}
                            break
                        if not np.array_equal(G, E):
                            bad = {'kind': 'value', 'level': j + 1, 'maxdev': common.maxabs(G - E)}
                            break
            # lowpass / include_scale
            if bad is None:
                if any(inc):
                    if not isinstance(yl, (list, tuple)) or len(yl) != J:
                        bad = {'kind': 'structure', 'what': 'scales is not a list of length J'}
                    else:
                        for j in range(J):
                            if inc[j]:
                                E = lows[j + 1][0]
                                G = yl[j].numpy()
                                if G.shape != E.shape or common.maxabs(G - E) > common.TOL:
                                    bad = {'kind': 'scale', 'level': j + 1, 'observed_shape': list(G.shape), 'expected_shape': list(E.shape)}
                                    break
                            elif not _is_placeholder(yl[j]):
                                bad = {'kind': 'scale_not_empty', 'level': j + 1}
                                break
                else:
                    if isinstance(yl, (list, tuple)) or not np.array_equal(yl.numpy(), yl0.numpy()):
                        bad = {'kind': 'lowpass_changed'}
            if bad is not None:
                res.violation('forward_options', cfg, bad, tags)
                continue
            # inverse with the same layout reconstructs like the default inverse (no masks only)
            if not any(skip) and not any(inc):
                res['impl_calls'] += 1
                try:
                    R = DTCWTInverse(biort=b, qshift=q, o_dim=o, ri_dim=r)((yl, yh)).numpy()
                except Exception as e:
                    res.violation('inverse_layout', cfg, {'kind': 'raise', 'exc': repr(e)[:200]}, tags)
                    continue
                try:
                    Rp = DTCWTInverse(b, q, o, r)((yl, yh)).numpy()             # documented positional order (biort, qshift, o_dim, ri_dim)
                    if Rp.shape != R.shape or not np.array_equal(Rp, R):
                        res.violation('inverse_layout', dict(cfg, variant='positional arguments'), {'kind': 'value_or_shape'}, tags)
                except Exception as e:
                    res.violation('inverse_layout', dict(cfg, variant='positional arguments'), {'kind': 'raise', 'exc': repr(e)[:200]}, tags)
                res.regime('inverse_layout')
                d = cmp_mats(R.reshape(P, -1), inv0.reshape(P, -1), tol=1e-12) if R.shape == inv0.shape else \
                    {'kind': 'shape', 'observed': list(R.shape[1:]), 'expected': list(inv0.shape[1:])}
                if d is not None:
                    res.violation('inverse_layout', cfg, d, tags)
    # prefix consistency (default layout): first j levels of the J-level output equal the j-level output
    if item['kind'] == 'masks':
        for j in range(1, J):
            cfg = {'biort': b, 'qshift': q, 'h': H, 'w': W, 'J': J, 'prefix': j}
            res.regime('prefix')
            res['evals'] += P
            for k in range(j):
                A, B = D[k], lows[j][1][k]
                if A.shape != B.shape or common.maxabs(A - B) > common.TOL:
                    res.violation('prefix_consistency', cfg, {'kind': 'value', 'level': k + 1}, base_tags)
                    break
        if (H, W, J) == (7, 10, 3):
            res.sample({'config': {'biort': b, 'qshift': q, 'h': H, 'w': W, 'J': J}, 'skip_masks': len(masks), 'include_masks': len(masks),
                        'prefixes': J - 1, 'impulses': P})
    elif item['kind'] == 'product' and J == 2:
        res.sample({'kind': 'product', 'layouts': [list(x) for x in item['layouts']], 'mask_pairs': len(masks) ** 2, 'impulses': P})
    return res
