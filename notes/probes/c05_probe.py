import warnings, time, sys
import numpy as np, torch, pywt
torch.set_default_dtype(torch.float64)
from pytorch_wavelets import DWT1DForward, DWT1DInverse, DWTForward, DWTInverse
warnings.simplefilter('ignore')
modes=['zero','symmetric','reflect','periodic','periodization']
def jac_fwd1d(w,mode,N,J):
    f=DWT1DForward(J=J,wave=w,mode=mode)
    X=torch.eye(N)[:,None,:]
    yl,yh=f(X)
    A=torch.cat([yl[:,0]]+[h[:,0] for h in yh],dim=1).T  # rows outputs, cols inputs  (M x N)
    # backward: for each output basis
    M=A.shape[0]
    G=torch.zeros(M,N)
    x=torch.zeros(1,1,N,requires_grad=True)
    yl,yh=f(x)
    out=torch.cat([yl[0,0]]+[h[0,0] for h in yh])
    for m in range(M):
        g,=torch.autograd.grad(out[m],x,retain_graph=True)
        G[m]=g[0,0]
    return A,G
bad={}
for w in ['db1','db2','db3','bior2.4','sym4','bior1.3']:
    L=pywt.Wavelet(w).dec_len
    for mode in modes:
        for N in range(max(2,L),L+9):
            for J in (1,2):
                try: A,G=jac_fwd1d(w,mode,N,J)
                except Exception as e:
                    bad.setdefault((mode,'raise',str(e)[:50]),[]).append((w,N,J)); continue
                err=(A-G).abs().max().item()
                if err>1e-9: bad.setdefault((mode,'fwd-not-adjoint'),[]).append((w,N,J,round(err,4)))
for k,v in bad.items(): print(k,len(v),v[:10])
# inverse with subsets
print('--- inverse grad subsets')
for mode in modes:
    w='db2'; N=12
    f=DWT1DForward(J=2,wave=w,mode=mode); i=DWT1DInverse(wave=w,mode=mode)
    yl,yh=f(torch.randn(1,1,N))
    for mask in [(1,1,1),(1,0,0),(0,1,0),(0,0,1),(0,1,1)]:
        a=[yl.clone().requires_grad_(bool(mask[0]))]+[h.clone().requires_grad_(bool(m)) for h,m in zip(yh,mask[1:])]
        try:
            y=i((a[0],a[1:]))
            ins=[t for t in a if t.requires_grad]
            g=torch.autograd.grad(y.sum(),ins,allow_unused=True)
            print(mode,mask,[None if t is None else tuple(t.shape) for t in g])
        except Exception as e: print(mode,mask,'raise',str(e)[:80])
