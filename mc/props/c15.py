"""C15 - calls are pure: no argument mutation, no dependence on call history or on other threads."""
import concurrent.futures
import itertools
import json
import os

from .. import common, hidden, purity, sched
from ..common import Res

PID = 'C15'
LEVEL = 'model_checking'
RULE = ('(A) explicit-state breadth-first search over operation histories: alphabet = construct(cfg) for a pool of 8 colliding module '
        'configurations, call(instance, input 0/1, nograd|grad+backward), load_table(name); a state is (digest of the hidden process state '
        'found by introspection, live instances and their attribute digests); every transition is executed on the real library after '
        'resetting the hidden state and replaying the history; invariants on every transition: I1 arguments bitwise unchanged, I2 result and '
        'gradients bitwise equal to the same operation run first in a pristine interpreter, I3 every earlier result still alive unchanged, '
        'I4 buffers of all live instances unchanged, I5 existing hidden-state entries unchanged. Plus all ordered pairs of calls (with their '
        'constructions) executed as explicit histories irrespective of state merging. (B) stateless enumeration of all schedules of two '
        'threads under a cooperative line-level scheduler with a preemption bound (1 at every line of the library, 2 at lines that can touch '
        'shared state), six harnesses forced to collide, both thread orders; oracle: each thread\'s result equals its sequential result '
        'bitwise, I1, I5; a free-running pass of the same bodies on untraced threads is reported separately (not deciding); thorough also enumerates all call triples statelessly. distinct_nontrivial = distinct (hidden state, live set) states + distinct schedule outcomes')
ASSUMPTIONS = ['two histories reaching the same hidden-state digest have the same futures (the digest covers every module-level object, function '
               'attribute, closure cell, mutable default and instance attribute reachable by introspection; state outside Python objects is not seen)',
               'scheduling granularity is the source line inside library frames; interleavings inside one torch kernel are not modelled',
               'platform is bit-reproducible with one torch thread (self-test: every pristine reference is computed twice in separate processes)']
CHUNK = 1
MIXED = ['dwt_per', 'dtf_a', 'scat1', 'dwt1d_pc']          # modules that also receive a call with an input of the other float dtype
SHORT_HARNESSES = ['two_constructs', 'construct_vs_call', 'f32_vs_f64']      # few hundred scheduling points per execution
BOUND2_QUICK = ['same_instance_two_inputs', 'inverse_dtcwt_twice', 'scat_same_instance']   # the other harnesses get bound 2 in the thorough tier
HARNESSES = ['two_constructs', 'same_instance_two_inputs', 'inverse_dtcwt_twice', 'construct_vs_call', 'f32_vs_f64', 'scat_same_instance']


def all_ops():
    ops = [['construct', k] for k in purity.ORDER] + [['load', n] for n in purity.LOADS]
    ops += [['mixed', k, 0] for k in MIXED]
    for k in purity.ORDER:
        for i in (0, 1):
            for g in ('nograd', 'grad'):
                ops.append(['call', k, i, g])
    return ops


def _key(op):
    return json.dumps(op)


def depth(tier):
    return 3 if tier == 'quick' else 4


def bounds(tier):
    return {'history_depth': depth(tier), 'alphabet': len(all_ops()), 'pool': purity.ORDER, 'call_pairs': 'all ordered pairs of the 32 calls',
            'schedule_bounds': {'every_line': 1 if tier == 'quick' else ('2 on %s, 1 elsewhere' % SHORT_HARNESSES), 'visible_lines': ('2 on %s' % BOUND2_QUICK) if tier == 'quick' else '2 on all harnesses, 3 on scat_same_instance'}, 'harnesses': HARNESSES}


def plan(tier):
    # pristine references: every operation as the first operation of a fresh interpreter, computed twice (determinism self-test)
    ops = [op for op in all_ops() if op[0] != 'mixed']
    # determinism self-test: in the quick tier one call per module (plus constructions and loads) is computed twice
    twice = [op for op in ops if op[0] != 'call' or (op[2] == 1 and op[3] == 'grad') or tier == 'thorough']
    with concurrent.futures.ThreadPoolExecutor(max_workers=14) as ex:
        r1 = list(ex.map(purity.pristine, ops))
        r2 = list(ex.map(purity.pristine, twice))
    first = {_key(op): a for op, a in zip(ops, r1)}
    for op, b in zip(twice, r2):
        if first[_key(op)] != b:
            raise SystemExit('BROKEN: platform not bit-reproducible for %r across fresh interpreters' % (op,))
    ref = {_key(op): a for op, a in zip(ops, r1)}
    items = [{'kind': 'gradmode', 'ref': ref}]
    roots = [['construct', k] for k in purity.ORDER] + [['load', n] for n in purity.LOADS]
    for ia, a in enumerate(roots):
        for b in roots[ia:]:
            # [a, b] and [b, a] reach the same state (same cache contents, same live set): one root per unordered pair;
            # the order of constructions itself is exercised by the depth-3 extensions and the schedule harnesses
            items.append({'kind': 'hist', 'root': [a, b] if (ia % 2 == 0) else [b, a], 'depth': depth(tier), 'ref': ref})
    calls = [op for op in ops if op[0] == 'call']
    for i in range(0, len(calls)):
        items.append({'kind': 'pairs', 'first': calls[i], 'seconds': calls, 'ref': ref})
    for k in MIXED:
        items.append({'kind': 'pairs', 'first': ['mixed', k, 0], 'seconds': [c for c in calls if c[1] == k], 'ref': ref})
    if tier == 'thorough':
        # stateless enumeration of all call triples (with their constructions): independent of the state merge
        for a in calls:
            for b0 in range(0, len(calls), 9):
                items.append({'kind': 'triples', 'first': a, 'seconds': calls[b0:b0 + 9], 'thirds': calls, 'ref': ref})
    for h in HARNESSES:
        items.append({'kind': 'free', 'harness': h, 'runs': 20 if tier == 'quick' else 100})
        for order in (0, 1):
            # every library line is a scheduling point: bound 1 (thorough: bound 2 on the harnesses whose executions are short enough)
            b_all = 2 if (tier == 'thorough' and h in SHORT_HARNESSES) else 1
            for r in range(6 if b_all == 1 else 16):
                items.append({'kind': 'sched', 'harness': h, 'order': order, 'bound': b_all, 'only_visible': False, 'part': [6 if b_all == 1 else 16, r]})
            # scheduling points only at lines that can touch shared state: bound 2 (quick: three harnesses, one thread order each)
            if tier == 'quick' and (h not in BOUND2_QUICK or order != BOUND2_QUICK.index(h) % 2):
                continue
            b_vis = 3 if (tier == 'thorough' and h == 'scat_same_instance') else 2
            nparts = 8 if tier == 'quick' else 16
            for r in range(nparts):
                items.append({'kind': 'sched', 'harness': h, 'order': order, 'bound': b_vis, 'only_visible': True, 'part': [nparts, r]})
    items.sort(key=lambda it: 0 if it['kind'] == 'sched' and it['only_visible'] else (1 if it['kind'] == 'sched' else 2))   # longest first
    return items


def required_regimes(tier):
    return {'hist:construct', 'hist:call', 'hist:load', 'hist:state_changed_by_construct', 'pairs', 'sched:every_line', 'sched:visible',
            'sched:preempted', 'sched:free_running', 'gradmode:grad', 'gradmode:nograd', 'gradmode:compared'} | ({'triples'} if tier == 'thorough' else set())


_SNAP = None


def _snap():
    global _SNAP
    if _SNAP is None:
        import pytorch_wavelets                        # noqa  (everything imported before the snapshot)
        _SNAP = hidden.Snapshot()
    return _SNAP


def _inst_attrs(env):
    out = {}
    for k, m in env['inst'].items():
        d = {}
        for name, mod in m.named_modules():
            for an, av in sorted(vars(mod).items()):
                if an.startswith('_') and an not in ('_buffers', '_parameters'):
                    continue
                c = hidden.canon(av)
                if c is not None:
                    d['%s.%s' % (name, an)] = c
        out[k] = hidden._digest(repr(sorted(d.items())).encode())
    return out


def _step(env, op, ref, res, history, tags):
    """Execute one transition with all invariants; returns False when a violation was recorded."""
    st0 = hidden.state()
    inst0 = {k: purity.instance_digest(m) for k, m in env['inst'].items()}
    cfg = {'history': history, 'op': op}
    try:
        got = purity.op_result_digest(op, env)
    except Exception as e:
        res.violation('history_purity', cfg, {'kind': 'raise', 'exc': repr(e)[:200]}, tags)
        return False
    res['impl_calls'] += 1
    res['transitions'] += 1
    res['evals'] += 1
    ok = True
    want = ref.get(_key(op))
    if op[0] == 'mixed':
        want = got
    elif want is None:
        want = purity.pristine(op)
    if op[0] == 'call':
        if got['args_before'] != got['args_after']:
            res.violation('history_purity', cfg, {'kind': 'I1_argument_mutated'}, tags)
            ok = False
        if isinstance(got['grads'], list) and 'second_backward_through_the_same_graph_differs' in got['grads']:
            res.violation('history_purity', cfg, {'kind': 'second_backward_through_the_same_graph_differs'}, tags)
            ok = False
        for fld in ('outputs', 'grads'):
            if got[fld] != want[fld]:
                res.violation('history_purity', cfg, {'kind': 'I2_result_differs_from_pristine', 'field': fld}, tags)
                ok = False
                break
    elif got != want:
        res.violation('history_purity', cfg, {'kind': 'I2_result_differs_from_pristine', 'field': op[0]}, tags)
        ok = False
    for (eop, objs, dg) in env['keep'][:-1] if op[0] == 'call' else env['keep']:
        if purity.digest(objs) != dg:
            res.violation('history_purity', cfg, {'kind': 'I3_earlier_result_changed', 'earlier_op': eop}, tags)
            ok = False
            break
    for k, d0 in inst0.items():
        if k in env['inst'] and op != ['construct', k] and purity.instance_digest(env['inst'][k]) != d0:
            res.violation('history_purity', cfg, {'kind': 'I4_instance_buffers_changed', 'instance': k}, tags)
            ok = False
    st1 = hidden.state()
    changed = sorted(k for k in st0 if k in st1 and st0[k] != st1[k] and not k.endswith('COEFF_CACHE'))
    if 'pytorch_wavelets.dtcwt.coeffs.COEFF_CACHE' in st0:
        # the table cache may gain entries; existing entries must keep their values
        import pytorch_wavelets.dtcwt.coeffs as ic
        for name, tab in env.setdefault('cache0', {}).items():
            if name in ic.COEFF_CACHE and hidden.canon(ic.COEFF_CACHE[name]) != tab:
                changed.append('COEFF_CACHE[%s]' % name)
        env['cache0'] = {n: hidden.canon(t) for n, t in ic.COEFF_CACHE.items()}
    if changed:
        res.violation('history_purity', cfg, {'kind': 'I5_hidden_state_entry_changed', 'entries': changed[:6]}, tags)
        ok = False
    return ok


def _replay(history, ref, res, check=False):
    _snap().reset()
    env = {'inst': {}, 'keep': []}
    for j, op in enumerate(history):
        if op[0] in ('call', 'mixed') and op[1] not in env['inst']:
            return None
        if check:
            _step(env, op, ref, res, history[:j], [])
        else:
            purity.op_result_digest(op, env)
    return env


def _state_key(env):
    return (hidden.state_hash(), tuple(sorted(_inst_attrs(env).items())))


def _run_hist(item, res):
    ref = item['ref']
    ops = all_ops()
    root = item['root']
    seen = set()
    frontier = [root]
    env = _replay(root, ref, res, check=True)
    if env is None:
        return
    k0 = hidden.state_hash()
    seen.add(_state_key(env))
    res.state(*seen.__iter__().__next__())
    _snap().reset()
    base_hash = hidden.state_hash()
    for d in range(len(root), item['depth']):
        nxt = []
        for hist in frontier:
            live = {op[1] for op in hist if op[0] == 'construct'}
            for op in ops:
                if op[0] in ('call', 'mixed') and op[1] not in live:
                    continue
                env = _replay(hist, ref, res)
                tags = ['hist:' + op[0]] + (['gradmode:' + op[3]] if op[0] == 'call' else [])
                h0 = hidden.state_hash()
                _step(env, op, ref, res, hist, tags)
                res.regime(*tags)
                if op[0] == 'construct' and hidden.state_hash() != h0:
                    res.regime('hist:state_changed_by_construct')
                key = _state_key(env)
                if key not in seen:
                    seen.add(key)
                    res.state(*key)
                    res['ophashes'].append(hidden._digest(repr(key).encode()))
                    nxt.append(hist + [op])
        frontier = nxt
    if root == [['construct', 'dtf_a'], ['construct', 'scat1']]:
        res.sample({'root_history': root, 'depth': item['depth'], 'alphabet': len(ops), 'states_from_this_root': len(seen)})
    _snap().reset()


def _run_pairs(item, res):
    ref = item['ref']
    a = item['first']
    for b in item['seconds']:
        hist = [['construct', a[1]]] + ([['construct', b[1]]] if b[1] != a[1] else []) + [a]
        env = _replay(hist, ref, res)
        _step(env, b, ref, res, hist, ['pairs'])
        res['ophashes'].append(hidden._digest(repr([a, b]).encode()))
    res.regime('pairs', 'gradmode:' + a[3] if a[0] == 'call' else 'pairs:mixed_dtype_first')
    res.state('pairs', _key(a))
    _snap().reset()


def _run_triples(item, res):
    ref = item['ref']
    a = item['first']
    for b in item['seconds']:
        for c in item['thirds']:
            need = []
            for op in (a, b, c):
                if ['construct', op[1]] not in need:
                    need.append(['construct', op[1]])
            hist = need + [a, b]
            env = _replay(hist, ref, res)
            _step(env, c, ref, res, hist, ['triples'])
        res['ophashes'].append(hidden._digest(repr([a, b]).encode()))
    res.regime('triples')
    res.state('triples', _key(a), _key(item['seconds'][0]))
    _snap().reset()


def _run_free(item, res):
    """Free-running pass (not the deciding step): the harness bodies on real, untraced threads, started together."""
    import threading
    setup = _harness(item['harness'])
    seq = []
    for t in (0, 1):
        env, bodies = setup()
        seq.append(bodies[t]())
    bad = 0
    first = None
    for k in range(item['runs']):
        env, bodies = setup()
        out = [None, None]
        bar = threading.Barrier(2)

        def work(i):
            bar.wait()
            try:
                out[i] = bodies[i]()
            except Exception as e:       # noqa
                out[i] = {'error': repr(e)[:200]}
        ths = [threading.Thread(target=work, args=(i,)) for i in (0, 1)]
        for th in ths:
            th.start()
        for th in ths:
            th.join()
        res['evals'] += 1
        res['impl_calls'] += 2
        if out[0] != seq[0] or out[1] != seq[1]:
            bad += 1
            if first is None:          # kept for diagnosis only
                first = ';'.join('t%d=%s' % (i, ((out[i] or {}).get('error') or 'other_digest')[:120]) for i in (0, 1) if out[i] != seq[i])
    res.regime('sched:free_running')
    res.state('free', item['harness'])
    res['ophashes'].append(hidden._digest(repr(('free', item['harness'], bad)).encode()))
    res['extra']['free_running_executions'] = item['runs']
    # not the deciding step (sampling of real-thread timings is outside this family of technique and is not reproducible):
    # mismatches are counted in the evidence and printed as a note, never as a violation
    res['extra']['free_running_mismatches'] = bad
    if bad:
        res['notes'].append('free_running_mismatch:%s:%d_of_%d:%s' % (item['harness'], bad, item['runs'], first))
    _snap().reset()


# ---- schedules ------------------------------------------------------------------------------------------------------------

def _harness(name):
    """Returns setup() -> list of two bodies; every body returns a digest dict of everything observable."""
    def body_call(env, k, i, g):
        def f():
            return purity.op_result_digest(['call', k, i, g], env)
        return f

    def body_construct(env, k):
        def f():
            return purity.op_result_digest(['construct', k], env)
        return f

    def setup():
        _snap().reset()
        env = {'inst': {}, 'keep': []}
        if name == 'two_constructs':
            return env, [body_construct(env, 'dtf_a'), body_construct(env, 'scat1')]
        if name == 'same_instance_two_inputs':
            purity.op_result_digest(['construct', 'dwt_per'], env)
            return env, [body_call(env, 'dwt_per', 0, 'nograd'), body_call(env, 'dwt_per', 1, 'grad')]
        if name == 'inverse_dtcwt_twice':
            purity.op_result_digest(['construct', 'dti_a'], env)
            return env, [body_call(env, 'dti_a', 0, 'nograd'), body_call(env, 'dti_a', 1, 'grad')]
        if name == 'construct_vs_call':
            purity.op_result_digest(['construct', 'dtf_a'], env)
            return env, [body_construct(env, 'dti_a'), body_call(env, 'dtf_a', 0, 'nograd')]
        if name == 'f32_vs_f64':
            purity.op_result_digest(['construct', 'dwt_sym32'], env)
            purity.op_result_digest(['construct', 'dwt_per'], env)
            return env, [body_call(env, 'dwt_sym32', 0, 'grad'), body_call(env, 'dwt_per', 1, 'nograd')]
        if name == 'scat_same_instance':
            purity.op_result_digest(['construct', 'scat1'], env)
            return env, [body_call(env, 'scat1', 0, 'grad'), body_call(env, 'scat1', 1, 'nograd')]
        raise KeyError(name)
    return setup


def _run_sched(item, res):
    libdir = os.path.join(common.REPO, 'pytorch_wavelets')
    setup = _harness(item['harness'])
    order = item['order']
    # sequential references of the two bodies (each alone, after the same setup)
    seq = []
    for t in (0, 1):
        env, bodies = setup()
        seq.append(bodies[t]())
    only = sched.visible_lines(libdir) if item['only_visible'] else None
    outcomes = set()
    state = {'env': None, 'st0': None}

    def make():
        env, bodies = setup()
        state['env'] = env
        state['st0'] = hidden.state()
        return bodies[::-1] if order else bodies

    def check(x):
        res['evals'] += 1
        res['transitions'] += len(x.points)
        res['impl_calls'] += 1
        sched_desc = {'harness': item['harness'], 'order': order, 'only_visible': item['only_visible'],
                      'choices_nonzero_at': [i for i, c in enumerate(x.choices) if c], 'points': len(x.points)}
        outcome = []
        for slot in (0, 1):
            t = (1 - slot) if order else slot
            r = x.results[slot]
            if x.errors[slot] is not None:
                res.violation('schedule_purity', sched_desc, {'kind': 'raise', 'thread': t, 'exc': x.errors[slot]}, [])
                outcome.append('err')
                continue
            outcome.append(hidden._digest(repr(r).encode()))
            if r != seq[t]:
                fld = [k for k in r if r[k] != seq[t].get(k)]
                res.violation('schedule_purity', sched_desc, {'kind': 'result_differs_from_sequential', 'thread': t, 'fields': fld,
                                                              'preempted_at': [[x.points[i][1].split('pytorch_wavelets/')[-1], x.points[i][2]] for i, c in enumerate(x.choices) if c][:4]}, [])
            elif 'args_before' in r and r['args_before'] != r['args_after']:
                res.violation('schedule_purity', sched_desc, {'kind': 'argument_mutated', 'thread': t}, [])
        st1 = hidden.state()
        ch = sorted(k for k in state['st0'] if k in st1 and state['st0'][k] != st1[k] and not k.endswith('COEFF_CACHE'))
        if ch:
            res.violation('schedule_purity', sched_desc, {'kind': 'hidden_state_entry_changed', 'entries': ch[:6]}, [])
        outcomes.add(tuple(outcome))
        if any(x.choices):
            res.regime('sched:preempted')

    mod, rem = item['part']
    # partition the first-level alternatives among work items: run the base execution, then explore only our share
    base = sched.Execution(make(), [], libdir, only).run()
    check(base)
    firsts = [i for i in range(len(base.points)) if base.points[i][3] >= 2]
    mine = [base.choices[:i] + [1] for k, i in enumerate(firsts) if k % mod == rem]
    stats = sched.explore(make, libdir, item['bound'], check, only=only, prefixes=mine) if mine and item['bound'] >= 1 else {'executions': 0, 'max_points': len(base.points), 'bound': item['bound']}
    res.regime('sched:visible' if item['only_visible'] else 'sched:every_line')
    res.state('sched', item['harness'], order, item['only_visible'], mod, rem)
    for o in outcomes:
        res['ophashes'].append(hidden._digest(repr((item['harness'], order, o)).encode()))
    per_thread = {}
    for p in base.points:
        per_thread[p[0]] = per_thread.get(p[0], 0) + 1
    if len(per_thread) < 2 or min(per_thread.values()) < 2:
        res['notes'].append('vacuous_schedule:%s:%s' % (item['harness'], 'visible' if item['only_visible'] else 'all'))
    res['extra']['schedules_executed'] = stats['executions'] + 1
    res['extra']['max_scheduling_points'] = max(res['extra'].get('max_scheduling_points', 0), stats['max_points'])
    res['extra']['distinct_schedule_outcomes'] = len(outcomes)
    if item['harness'] == 'same_instance_two_inputs' and order == 0 and rem == 0:
        res.sample({'harness': item['harness'], 'preemption_bound': item['bound'], 'points_per_thread': per_thread, 'only_visible_lines': item['only_visible'],
                    'schedules_in_this_partition': stats['executions'] + 1, 'distinct_outcomes': len(outcomes)})
    _snap().reset()


def _run_gradmode(item, res):
    """The value of a call does not depend on whether autograd is recording: pristine outputs under no_grad and with
    inputs that require grad (+ backward) are bitwise equal."""
    ref = item['ref']
    for k in purity.ORDER:
        for i in (0, 1):
            a, b = ref[_key(['call', k, i, 'nograd'])], ref[_key(['call', k, i, 'grad'])]
            res['evals'] += 1
            res['ophashes'].append(hidden._digest(repr((k, i)).encode()))
            if a['outputs'] != b['outputs']:
                res.violation('history_purity', {'op': ['call', k, i, 'grad'], 'compared_with': ['call', k, i, 'nograd']},
                              {'kind': 'result_depends_on_autograd_recording'}, [])
    res.regime('gradmode:compared')
    res.state('gradmode')


def run(item):
    common.init_worker()
    res = Res()
    _snap()
    if item['kind'] == 'gradmode':
        _run_gradmode(item, res)
    elif item['kind'] == 'hist':
        _run_hist(item, res)
    elif item['kind'] == 'pairs':
        _run_pairs(item, res)
    elif item['kind'] == 'triples':
        _run_triples(item, res)
    elif item['kind'] == 'free':
        _run_free(item, res)
    else:
        _run_sched(item, res)
    return res
