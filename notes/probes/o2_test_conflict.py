import warnings, logging
logging.disable(logging.WARNING); warnings.simplefilter('ignore')
import numpy as np, torch, pywt
from pytorch_wavelets import DWTForward, DWTInverse
import pytorch_wavelets.dwt.lowlevel as ll
torch.manual_seed(0)
w=pywt.Wavelet('db3'); mode='symmetric'
x=torch.randn(1,1,128,128,requires_grad=True)
dwt=DWTForward(J=1,wave=(w.dec_lo,w.dec_hi),mode=mode); iwt=DWTInverse(wave=(w.dec_lo[::-1],w.dec_hi[::-1]),mode=mode)
# true adjoint: plain autograd through the functional (no custom Function)
y=ll.afb2d(x,(w.dec_lo,w.dec_hi),mode=mode); s=y.shape; y5=y.reshape(s[0],-1,4,s[-2],s[-1])
g=torch.randn_like(y5[:,:,0])
true,=torch.autograd.grad(y5[:,:,0],x,g)
ref=iwt((g,[torch.zeros(1,1,3,*g.shape[-2:])]))
yl,yh=dwt(x); lib,=torch.autograd.grad(yl,x,g)
print('lib backward vs test reference (iwt flipped):',(lib-ref).abs().max().item())
print('TRUE adjoint vs test reference             :',(true-ref).abs().max().item(),' -> test at 3 decimals would', 'FAIL' if (true-ref).abs().max()>1.5e-3 else 'pass')
