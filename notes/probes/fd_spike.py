import warnings, logging, itertools
logging.disable(logging.WARNING); warnings.simplefilter('ignore')
import torch
torch.set_default_dtype(torch.float64)
from pytorch_wavelets import ScatLayer, ScatLayerj2
def jac_fd(lay,x,h):
    # 4th order central differences, batched over input coords: returns (P, M)
    P=x.numel(); E=torch.eye(P).reshape(P,*x.shape[1:])
    f=lambda d: lay(x+d*E).reshape(P,-1)
    return (-f(2*h)+8*f(h)-8*f(-h)+f(-2*h))/(12*h)
def jac_bwd(lay,x):
    z=lay(x); M=z.numel()
    xr=x.repeat(M,1,1,1).requires_grad_(); zr=lay(xr).reshape(M,-1)
    zr.backward(torch.eye(M)); return xr.grad.reshape(M,-1).T  # P x M
for Lay,sz in [(ScatLayer,(6,8)),(ScatLayerj2,(8,8))]:
  for b in (1e-3,1e-2,1.0):
    for kind in ('zero','const','impulse','dense'):
        x=torch.zeros(1,1,*sz)
        if kind=='const': x+=1
        if kind=='impulse': x[0,0,2,3]=1
        if kind=='dense': x=torch.sin(torch.arange(sz[0]*sz[1],dtype=torch.float64)*1.7).reshape(1,1,*sz)
        lay=Lay(magbias=b)
        h=min(1e-3,b/100)
        J1=jac_fd(lay,x,h); J2=jac_bwd(lay,x)
        print(Lay.__name__,b,kind,'h',h,'max|fd-bwd|',(J1-J2).abs().max().item(),'finite',bool(torch.isfinite(J2).all()))
