"""C14 - separate row and column filters act on the axis they are named for (4-tuple / 2-tuple / name forms)."""
import itertools

import numpy as np

from .. import common, dwt
from ..common import Res, cmp_mats, flat

PID = 'C14'
LEVEL = 'model_checking'
RULE = ('all ordered pairs of distinct wavelets from a pool of 8 (equal-length-different-taps and different-length pairs) '
        'x 5 modes x size set (H!=W and H==W, odd and even) x J<=3; DWTForward/DWTInverse built from the 4-tuple; complete '
        'impulse basis (analysis) and complete coefficient basis (synthesis); oracles: pywt.wavedec2/waverec2 with one wavelet '
        'per axis and the functional lowlevel.afb2d/sfb2d given the same four filters; 2-tuple and name forms compared with '
        'the same-wavelet reference; the functional API is given the four filters as arrays, as prepared tensors and as the module\'s own buffers; '
        'None levels with per-axis filters equal explicit zeros on the image extent; distinct_nontrivial = distinct non-zero extracted operators')
ASSUMPTIONS = ['C07 (linearity)', 'PyWavelets with a per-axis wavelet tuple is the reference model']
POOL = ['haar', 'db2', 'db3', 'coif1', 'bior2.2', 'bior1.3', 'db4', 'sym4']
CHUNK = 2


def sizes(tier):
    g = [3, 4, 5, 8, 11] if tier == 'quick' else list(range(2, 13))
    return [(h, w) for h in g for w in g]


def bounds(tier):
    return {'pool': POOL, 'ordered_pairs': len(POOL) * (len(POOL) - 1), 'modes': dwt.MODES, 'sizes': len(sizes(tier)), 'J': '1..3'}


def plan(tier):
    items = []
    for a, b in itertools.permutations(POOL, 2):
        for mode in dwt.MODES:
            items.append({'col': a, 'row': b, 'mode': mode, 'sizes': sizes(tier), 'form': '4tuple'})
    for a in POOL:
        for mode in dwt.MODES:
            items.append({'col': a, 'row': a, 'mode': mode, 'sizes': sizes(tier)[::3], 'form': '2tuple'})
            items.append({'col': a, 'row': a, 'mode': mode, 'sizes': sizes(tier)[::3], 'form': 'name'})
            items.append({'col': a, 'row': a, 'mode': mode, 'sizes': sizes(tier)[::5], 'form': 'object'})
    return items


def required_regimes(tier):
    return {'pair:equal_len', 'pair:different_len', 'size:h!=w', 'size:h==w', 'size:odd', 'form:4tuple', 'form:2tuple',
            'form:name', 'form:object', 'analysis', 'synthesis', 'functional_afb2d', 'functional_sfb2d', 'functional:arrays',
            'functional:prepared_tensors', 'functional:module_buffers', 'none_levels', 'backward_per_axis'}


def _waves(item):
    import pywt
    c, r = pywt.Wavelet(item['col']), pywt.Wavelet(item['row'])
    if item['form'] == '4tuple':
        return (c.dec_lo, c.dec_hi, r.dec_lo, r.dec_hi), (c.rec_lo, c.rec_hi, r.rec_lo, r.rec_hi)
    if item['form'] == '2tuple':
        return (c.dec_lo, c.dec_hi), (c.rec_lo, c.rec_hi)
    if item['form'] == 'object':
        return pywt.Wavelet(item['col']), pywt.Wavelet(item['col'])
    return item['col'], item['col']


def run(item):
    common.init_worker()
    import torch
    import pywt
    from pytorch_wavelets import DWTForward, DWTInverse
    from pytorch_wavelets.dwt import lowlevel
    res = Res()
    mode = item['mode']
    col, row = item['col'], item['row']
    Lc, Lr = dwt.flen(col), dwt.flen(row)
    fa, fs = _waves(item)
    for (h, w) in item['sizes']:
        X = common.eye_batch((h, w))
        for J in (1, 2, 3):
            cfg = {'col': col, 'row': row, 'mode': mode, 'h': h, 'w': w, 'J': J, 'form': item['form']}
            tags = ['pair:equal_len' if Lc == Lr else 'pair:different_len', 'size:h!=w' if h != w else 'size:h==w',
                    'form:' + item['form']]
            if h % 2 or w % 2:
                tags.append('size:odd')
            res.state(col, row, mode, h, w, J)
            try:
                co = pywt.wavedec2(X[:, 0], (col, row), mode=mode, level=J, axes=(-2, -1))
            except Exception:
                res['ood'] += 1
                continue
            ref = [co[0][:, None]]
            for j in range(J):
                ref += [c[:, None] for c in co[J - j]]
            # ---- analysis
            try:
                yl, yh = DWTForward(J=J, wave=fa, mode=mode)(torch.as_tensor(X))
            except Exception as e:
                if mode == 'reflect':
                    res['ood'] += 1      # C01 allows reflect to raise on short levels
                else:
                    res.violation('analysis_axes_vs_pywt', cfg, {'kind': 'raise', 'exc': repr(e)[:200]}, tags)
                continue
            res['impl_calls'] += 1
            res['transitions'] += J
            impl = [yl.numpy()]
            for hh in yh:
                hh = hh.numpy()
                impl += [hh[:, :, 0], hh[:, :, 1], hh[:, :, 2]]
            Ai, si = flat(impl)
            Ar, sr = flat(ref)
            res['evals'] += h * w
            res.regime('analysis', *tags)
            if si != sr:
                res.violation('analysis_axes_vs_pywt', cfg, {'kind': 'band_shapes', 'observed': si, 'expected': sr}, tags)
                continue
            d = cmp_mats(Ai, Ar)
            if d is not None:
                res.violation('analysis_axes_vs_pywt', cfg, d, tags)
            res.op(Ai)
            # ---- back-propagation through the per-axis module is the transpose of its own operator (modes where C05 holds exactly)
            if item['form'] == '4tuple' and mode in ('zero', 'periodization') and h * w <= 64 and J <= 2:
                from .. import jac
                fm = DWTForward(J=J, wave=fa, mode=mode)

                def ff(x, fm=fm):
                    a_, b_ = fm(x)
                    return [a_] + list(b_)
                try:
                    G, M = jac.vjp_matrices(ff, [torch.zeros((1, 1, h, w))], [True])
                    res['impl_calls'] += 1
                    res['evals'] += M
                    res.regime('backward_per_axis')
                    d = {'kind': 'no_gradient'} if G[0] is None else cmp_mats(G[0], Ai.T)
                except Exception as e:
                    d = {'kind': 'raise', 'exc': repr(e)[:200]}
                if d is not None:
                    res.violation('backward_axes', cfg, d, tags)
            # ---- functional afb2d (single level, same four filters): array form, prepared-tensor form, module buffers
            if J == 1 and item['form'] == '4tuple':
                fmod = DWTForward(J=1, wave=fa, mode=mode)
                forms = {'arrays': fa, 'prepared_tensors': lowlevel.prep_filt_afb2d(*fa),
                         'module_buffers': (fmod.h0_col, fmod.h1_col, fmod.h0_row, fmod.h1_row)}
                for fname, ff in forms.items():
                    fcfg = dict(cfg, functional_filter_form=fname)
                    try:
                        y = lowlevel.afb2d(torch.as_tensor(X), ff, mode=mode).numpy()
                    except Exception as e:
                        res.violation('module_vs_functional_afb2d', fcfg, {'kind': 'raise', 'exc': repr(e)[:200]}, tags)
                        continue
                    y = y.reshape(y.shape[0], 1, 4, y.shape[-2], y.shape[-1])
                    Af, sf = flat([y[:, :, 0], y[:, :, 1], y[:, :, 2], y[:, :, 3]])
                    res.regime('functional_afb2d', 'functional:' + fname)
                    res['impl_calls'] += 1
                    if sf != sr:
                        res.violation('module_vs_functional_afb2d', fcfg, {'kind': 'band_shapes', 'observed': sf, 'expected': sr}, tags)
                    else:
                        d = cmp_mats(Af, Ar)
                        if d is not None:
                            res.violation('module_vs_functional_afb2d', fcfg, d, tags)
            # ---- synthesis on the complete coefficient basis of this pyramid shape
            lsh = tuple(yl.shape[2:])
            hsh = [tuple(t.shape[3:]) for t in yh]
            P = dwt.pyramid_size_2d(lsh, hsh)
            if P > 1200:
                res['extra']['pyramids_over_basis_cap'] = res['extra'].get('pyramids_over_basis_cap', 0) + 1
                continue
            bl, bh = dwt.pyramid_basis_2d(lsh, hsh)
            co = [bl[:, 0]]
            for j in range(J):
                t = bh[J - 1 - j][:, 0]
                co.append((t[:, 0], t[:, 1], t[:, 2]))
            try:
                rref = pywt.waverec2(co, (col, row), mode=mode, axes=(-2, -1))
            except Exception:
                res['ood'] += 1
                continue
            try:
                out = DWTInverse(wave=fs, mode=mode)((torch.as_tensor(bl), [torch.as_tensor(t) for t in bh])).numpy()[:, 0]
            except Exception as e:
                res.violation('synthesis_axes_vs_pywt', cfg, {'kind': 'raise', 'exc': repr(e)[:200]}, tags)
                continue
            res['impl_calls'] += 1
            res['transitions'] += J
            res['evals'] += P
            res.regime('synthesis')
            if out.shape != rref.shape:
                res.violation('synthesis_axes_vs_pywt', cfg, {'kind': 'shape', 'observed': list(out.shape[1:]),
                                                              'expected': list(rref.shape[1:])}, tags)
                continue
            d = cmp_mats(out.reshape(P, -1).T, rref.reshape(P, -1).T)
            if d is not None:
                res.violation('synthesis_axes_vs_pywt', cfg, d, tags)
            res.op(out.reshape(P, -1))
            if J == 1 and item['form'] == '4tuple':
                t = torch.as_tensor(bh[0])
                imod = DWTInverse(wave=fs, mode=mode)
                forms = {'arrays': fs, 'prepared_tensors': lowlevel.prep_filt_sfb2d(*fs),
                         'module_buffers': (imod.g0_col, imod.g1_col, imod.g0_row, imod.g1_row)}
                for fname, ff in forms.items():
                    fcfg = dict(cfg, functional_filter_form=fname)
                    try:
                        y = lowlevel.sfb2d(torch.as_tensor(bl), t[:, :, 0], t[:, :, 1], t[:, :, 2], ff, mode=mode).numpy()[:, 0]
                    except Exception as e:
                        res.violation('module_vs_functional_sfb2d', fcfg, {'kind': 'raise', 'exc': repr(e)[:200]}, tags)
                        continue
                    res.regime('functional_sfb2d', 'functional:' + fname)
                    res['impl_calls'] += 1
                    d = cmp_mats(y.reshape(P, -1).T, rref.reshape(P, -1).T) if y.shape == rref.shape else \
                        {'kind': 'shape', 'observed': list(y.shape[1:]), 'expected': list(rref.shape[1:])}
                    if d is not None:
                        res.violation('module_vs_functional_sfb2d', fcfg, d, tags)
            # ---- None levels with per-axis filters: same as explicit zeros on the image extent (J<=3, all non-empty subsets)
            if item['form'] == '4tuple' and P <= 400 and mode != 'periodization':
                imod = DWTInverse(wave=fs, mode=mode)
                tl = torch.as_tensor(bl)
                th = [torch.as_tensor(t_) for t_ in bh]
                for r_ in range(1, J + 1):
                    for sub in itertools.combinations(range(J), r_):
                        ncfg = dict(cfg, none_levels=list(sub))
                        zh = [torch.zeros_like(t_) if j in sub else t_ for j, t_ in enumerate(th)]
                        nh = [None if j in sub else t_ for j, t_ in enumerate(th)]
                        try:
                            e_ = imod((tl, zh)).numpy()
                            g_ = imod((tl, nh)).numpy()
                        except Exception as e:
                            res.violation('none_level_per_axis_filters', ncfg, {'kind': 'raise', 'exc': repr(e)[:200]}, tags)
                            continue
                        res['impl_calls'] += 2
                        res['evals'] += P
                        res.regime('none_levels')
                        if g_.shape[-2] < h or g_.shape[-1] < w:
                            res.violation('none_level_per_axis_filters', ncfg, {'kind': 'extent', 'observed': list(g_.shape[2:])}, tags)
                            continue
                        d = cmp_mats(g_[:, 0, :h, :w].reshape(P, -1), e_[:, 0, :h, :w].reshape(P, -1))
                        if d is not None:
                            res.violation('none_level_per_axis_filters', ncfg, d, tags)
            if (h, w, J) == (5, 8, 2) and item['form'] == '4tuple':
                res.sample({'config': cfg, 'impulses': h * w, 'pyramid_coefficients': P,
                            'lowpass_shape': list(lsh), 'highpass_shapes': [list(s) for s in hsh]})
    return res
