"""C17 - orthogonal wavelets + periodization give an orthogonal transform (A^T A = A A^T = I, S = A^T, G = S)."""
import numpy as np

from .. import common, dwt, jac
from ..common import Res, cmp_mats

PID = 'C17'
LEVEL = 'model_checking'
RULE = ('all orthogonal PyWavelets wavelets of the statement (haar, db1-38, sym2-20, coif1-17) x J=1..4 x admissible sizes '
        'N = m*2^J with N/2^(J-1) >= L (first 3 / 6 admissible m; 2-D for L<=8 incl. H!=W); the analysis operator A is extracted '
        'on the complete impulse basis, the synthesis operator S on the complete coefficient basis, the back-propagated '
        'operator G on the complete cotangent basis; checked: A^T A = I, A A^T = I, S = A^T, G = S; tolerance = max(1e-9, '
        '8*J*defect) where defect is the orthonormality defect of the PyWavelets operator itself; distinct_nontrivial = '
        'distinct extracted operators')
ASSUMPTIONS = ['C07 (linearity)', 'orthonormality defect of the published filter taps is measured on the PyWavelets operator and granted']
CHUNK = 1


def ortho_wavelets():
    import pywt
    out = ['haar']
    for fam in ('db', 'sym', 'coif'):
        out += pywt.wavelist(fam)
    return sorted(set(out), key=lambda w: (dwt.flen(w), w))


def bounds(tier):
    return {'wavelets': len(ortho_wavelets()), 'J': '1..4', 'admissible_m': 3 if tier == 'quick' else 6,
            '2d': 'L<=8, J<=%d' % (2 if tier == 'quick' else 3)}


def plan(tier):
    items = []
    nm = 3 if tier == 'quick' else 6
    for w in ortho_wavelets():
        L = dwt.flen(w)
        for J in (1, 2, 3, 4):
            m0 = (L + 1) // 2
            for m in range(m0, m0 + nm):
                items.append({'dim': 1, 'wave': w, 'J': J, 'n': m * 2 ** J})
            if J in (1, 3):
                items.append({'dim': 1, 'wave': w, 'J': J, 'n': m0 * 2 ** J, 'mode': 'per'})        # the documented alias
        if L <= 8:
            for J in range(1, (2 if tier == 'quick' else 3) + 1):
                m0 = (L + 1) // 2
                ms = [m0, m0 + 1] if tier == 'quick' else [m0, m0 + 1, m0 + 2]
                for a in ms:
                    for b in ms:
                        items.append({'dim': 2, 'wave': w, 'J': J, 'h': a * 2 ** J, 'w': b * 2 ** J})
    return items


def required_regimes(tier):
    return {'dim:1', 'dim:2', '2d:h!=w', 'J:1', 'J:4', 'min_admissible', 'fam:db', 'fam:sym', 'fam:coif', 'fam:haar', 'mode_alias:per'}


def run(item):
    common.init_worker()
    import torch
    import pywt
    from pytorch_wavelets import DWT1DForward, DWT1DInverse, DWTForward, DWTInverse
    res = Res()
    w, J, dim = item['wave'], item['J'], item['dim']
    L = dwt.flen(w)
    mode = item.get('mode', 'periodization')
    shape = (item['n'],) if dim == 1 else (item['h'], item['w'])
    cfg = dict(item)
    tags = ['dim:%d' % dim, 'J:%d' % J, 'fam:' + ''.join(c for c in w if c.isalpha())] + (['mode_alias:per'] if mode == 'per' else [])
    if dim == 2 and shape[0] != shape[1]:
        tags.append('2d:h!=w')
    if min(shape) // 2 ** (J - 1) in (L, L + 1):
        tags.append('min_admissible')
    P = int(np.prod(shape))
    res.state(dim, w, J, shape)
    X = common.eye_batch(shape)
    # reference defect
    if dim == 1:
        co = pywt.wavedec(X[:, 0], w, mode='periodization', level=J, axis=-1)
        Ar = np.concatenate([co[0].reshape(P, -1)] + [co[J - j].reshape(P, -1) for j in range(J)], axis=1).T     # lowpass, finest..coarsest
        fwd = DWT1DForward(J=J, wave=w, mode=mode)
        inv = DWT1DInverse(wave=w, mode=mode)
    else:
        co = pywt.wavedec2(X[:, 0], w, mode='periodization', level=J, axes=(-2, -1))
        cols = [co[0].reshape(P, -1)]
        for j in range(J):                                                        # finest..coarsest, (LH, HL, HH) stacked per level
            cols.append(np.stack(co[J - j], axis=1).reshape(P, -1))
        Ar = np.concatenate(cols, axis=1).T
        fwd = DWTForward(J=J, wave=w, mode=mode)
        inv = DWTInverse(wave=w, mode=mode)
    defect = common.maxabs(Ar.T @ Ar - np.eye(P))
    tol = max(common.TOL, 8 * J * defect)

    def f(x):
        yl, yh = fwd(x)
        return [yl] + list(yh)

    x0 = torch.zeros((1, 1) + shape)
    A, bshapes = jac.forward_matrix(f, [x0])
    res['impl_calls'] += 1
    res['transitions'] += J
    res['evals'] += P
    res.regime(*tags)
    if A.shape != (P, P):
        res.violation('orthogonality', cfg, {'kind': 'shape', 'observed': list(A.shape), 'expected': [P, P]}, tags)
        return res
    for name, M in (('A^T A = I', A.T @ A), ('A A^T = I', A @ A.T)):
        d = cmp_mats(M, np.eye(P), tol=tol, scale=1.0)
        if d is not None:
            d['identity'] = name
            d['defect_ref'] = defect
            res.violation('orthogonality', cfg, d, tags)
    res.op(A)
    d = cmp_mats(A, Ar, tol=max(common.TOL, 1e-12))
    if d is not None:
        d['identity'] = 'A = PyWavelets periodization operator'
        res.violation('orthogonality', cfg, d, tags)
    # synthesis operator on the complete coefficient basis
    base = [torch.zeros((1,) + s) for s in bshapes]

    def g(yl, *yh):
        return [inv((yl, list(yh)))]

    S, _ = jac.forward_matrix(g, base)
    res['impl_calls'] += 1
    res['transitions'] += J
    res['evals'] += P
    d = cmp_mats(S, A.T, tol=tol, scale=1.0) if S.shape == A.T.shape else {'kind': 'shape', 'observed': list(S.shape), 'expected': list(A.T.shape)}
    if d is not None:
        d['identity'] = 'S = A^T'
        res.violation('inverse_is_transpose', cfg, d, tags)
    # back-propagated operator on the complete cotangent basis
    G, M = jac.vjp_matrices(f, [x0], [True])
    res['impl_calls'] += 1
    res['evals'] += M
    if G[0] is None:
        res.violation('backward_is_inverse', cfg, {'kind': 'no_gradient'}, tags)
    else:
        d = cmp_mats(G[0], S, tol=tol, scale=1.0) if G[0].shape == S.shape else {'kind': 'shape', 'observed': list(G[0].shape), 'expected': list(S.shape)}
        if d is not None:
            d['identity'] = 'G = S'
            res.violation('backward_is_inverse', cfg, d, tags)
    if J == 2 and dim == 1 and w in ('db3', 'sym5'):
        res.sample({'config': cfg, 'operator_shape': list(A.shape), 'defect_of_reference_taps': defect, 'tol': tol})
    return res
