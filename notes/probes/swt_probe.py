import warnings, logging
logging.disable(logging.WARNING); warnings.simplefilter('ignore')
import numpy as np, torch, pywt
torch.set_default_dtype(torch.float64)
import pytorch_wavelets.dwt.lowlevel as ll
def swt(x,w,J,mode='periodic'):
    W=pywt.Wavelet(w); filts=ll.prep_filt_afb2d(W.dec_lo,W.dec_hi)
    out=[]; l=x
    for j in range(J):
        y=ll.afb2d_atrous(l,filts,mode,2**j)
        s=y.shape; y=y.reshape(s[0],-1,4,s[-2],s[-1]); out.append(y); l=y[:,:,0]
    return out
bad=[]
for w in ['db1','db2','db3','sym4','bior2.4','bior1.3','coif2']:
    for J in (1,2,3):
        for H,W in [(8,8),(8,16),(16,8),(24,16)]:
            if H%2**J or W%2**J: continue
            x=torch.randn(2,2,H,W)
            out=swt(x,w,J)
            ref=pywt.swt2(x.numpy(),w,level=J,axes=(-2,-1),trim_approx=False)  # coarsest first
            for j in range(J):
                cA,(cH,cV,cD)=ref[J-1-j]
                e=max(np.abs(out[j][:,:,k].numpy()-r).max() for k,r in enumerate([cA,cH,cV,cD]))
                if e>1e-9: bad.append((w,J,H,W,j,e))
print(len(bad),bad[:10])
