import warnings, logging
logging.disable(logging.WARNING); warnings.simplefilter('ignore')
import numpy as np
import pytorch_wavelets.dtcwt.coeffs as mc
def centred_sum(p,q):
    n=max(len(p),len(q)); a=np.zeros(n); b=np.zeros(n)
    a[(n-len(p))//2:(n-len(p))//2+len(p)]=p; b[(n-len(q))//2:(n-len(q))//2+len(q)]=q
    return a+b
for name in ['antonini','legall','near_sym_a','near_sym_b','near_sym_b_bp']:
    t=[x.ravel() for x in mc.biort(name)]; h0,g0,h1,g1=t[:4]
    s=centred_sum(np.convolve(h0,g0),np.convolve(h1,g1)); c=len(s)//2
    mod=lambda h:h*(-1.0)**np.arange(len(h))
    al=centred_sum(np.convolve(mod(h0),g0),np.convolve(mod(h1),g1))
    print(name,'nodist',abs(s[c]-1)<1e-12 and np.abs(np.delete(s,c)).max()<1e-12,'alias max',np.abs(al).max().round(4))
    if len(t)>4:
        h2,g2=t[4:]; print('   bp lens',len(h2),len(g2),'sym',np.allclose(h2,h2[::-1]),np.allclose(g2,g2[::-1]), 'g2==h2rev',np.allclose(g2,h2[::-1]))
def sh(a,b,k): 
    n=len(a); return float(np.dot(a[2*k:],b[:n-2*k])) if k>=0 else float(np.dot(a[:n+2*k],b[-2*k:]))
for name in ['qshift_06','qshift_a','qshift_b','qshift_c','qshift_d','qshift_b_bp','qshift_32','farras','near_sym_a2']:
    try: t=[x.ravel() for x in mc.qshift(name)]
    except Exception as e: print(name,'raise',e); continue
    h0a,h0b,g0a,g0b,h1a,h1b,g1a,g1b=t[:8]; n=len(h0a)
    K=range(-(n//2)+1,n//2)
    o00=max(abs(sh(h0a,h0a,k)-(k==0)) for k in K); o11=max(abs(sh(h1a,h1a,k)-(k==0)) for k in K); o01=max(abs(sh(h0a,h1a,k)) for k in K)
    print(name,n,'orth h0',o00<1e-9,'h1',o11<1e-9,'cross',o01<1e-9,'b=rev(a)',np.allclose(h0b,h0a[::-1]) and np.allclose(h1b,h1a[::-1]),'g=rev(h)',all(np.allclose(g,h[::-1]) for g,h in [(g0a,h0a),(g0b,h0b),(g1a,h1a),(g1b,h1b)]), (o00,o11,o01))
print([f for f in ['level1 farras']], end=' ')
try: mc.level1('farras',compact=True)
except Exception as e: print('level1(farras) raises',type(e).__name__)
