import warnings, logging
logging.disable(logging.WARNING); warnings.simplefilter('ignore')
import torch
from torch.utils._python_dispatch import TorchDispatchMode
from torch.utils._pytree import tree_flatten
from pytorch_wavelets import DWTForward, DWTInverse, DTCWTForward, DTCWTInverse, ScatLayer
LINEAR_ANY={'aten.view.default','aten.cat.default','aten.index.Tensor','aten.select.int','aten.clone.default','aten.slice.Tensor','aten.transpose.int',
 'aten.stack.default','aten.add.Tensor','aten.sub.Tensor','aten.unsqueeze.default','aten.reshape.default','aten._unsafe_view.default','aten.permute.default',
 'aten.copy_.default','aten.unbind.int','aten.index_select.default','aten.neg.default','aten.avg_pool2d.default','aten.constant_pad_nd.default','aten.expand.default','aten.repeat.default','aten.contiguous.default','aten.add_.Tensor','aten.squeeze.dim','aten.as_strided.default','aten.detach.default','aten.alias.default','aten.t.default','aten._to_copy.default','aten.new_zeros.default','aten.zeros_like.default','aten.reflection_pad2d.default','aten.split.Tensor','aten.split_with_sizes.default'}
class Taint(TorchDispatchMode):
    def __init__(s, src): super().__init__(); s.st={src.untyped_storage().data_ptr()}; s.flags=[]; s.ops=[]
    def tainted(s,t): return isinstance(t,torch.Tensor) and t.untyped_storage().data_ptr() in s.st
    def __torch_dispatch__(s, func, types, args=(), kwargs=None):
        kwargs=kwargs or {}
        flat,_=tree_flatten((args,kwargs)); tin=[s.tainted(a) for a in flat if isinstance(a,torch.Tensor)]
        name=str(func); s.ops.append(name)
        out=func(*args,**kwargs)
        if any(tin):
            ok = name in LINEAR_ANY
            if name=='aten.convolution.default': ok = s.tainted(args[0]) != s.tainted(args[1])   # exactly one operand data-derived
            if name in ('aten.mul.Tensor','aten.div.Tensor','aten.div_.Tensor','aten.mul_.Tensor'):
                others=[a for a in args[1:] if isinstance(a,torch.Tensor)]
                ok = s.tainted(args[0]) and not any(s.tainted(o) for o in others)
            if not ok: s.flags.append(name)
            for o in tree_flatten(out)[0]:
                if isinstance(o,torch.Tensor): s.st.add(o.untyped_storage().data_ptr())
        return out
def run(name,fn,x):
    with Taint(x) as t: fn(x)
    print(name,'ops',len(t.ops),'flagged',sorted(set(t.flags)))
x=torch.randn(1,2,9,10)
run('dwt sym',DWTForward(J=2,wave='db2',mode='symmetric'),x)
run('dwt per',DWTForward(J=2,wave='db2',mode='periodization'),x)
run('dwt zero',DWTForward(J=2,wave='db2',mode='zero'),x)
run('dtcwt',DTCWTForward(J=3),x)
f=DTCWTForward(J=2); i=DTCWTInverse(); 
yl,yh=f(x)
big=torch.cat([yl.reshape(-1)]+[h.reshape(-1) for h in yh]).clone()
def inv(v):
    a=v[:yl.numel()].reshape(yl.shape); off=yl.numel(); hs=[]
    for h in yh: hs.append(v[off:off+h.numel()].reshape(h.shape)); off+=h.numel()
    return i((a,hs))
run('dtcwt inv',inv,big)
run('scat',ScatLayer(),torch.randn(1,2,8,8))
