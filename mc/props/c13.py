"""C13 - stationary WT: undecimated, shift-equivariant, equals pywt.swt2."""
import numpy as np

from .. import common, dwt
from ..common import Res, cmp_mats, flat

PID = 'C13'
LEVEL = 'model_checking'
RULE = ('state = (wavelet, mode, J, level, (H,W)); the size map is the identity, transitions are the J a-trous levels; for every '
        'wavelet x mode in {constructor default, periodic} x J<=3 x (H,W) multiples of 2^J (plus J=4,5 at 16x16 / 32x16 / 32x32) the complete impulse basis is pushed '
        'through SWTForward; oracles: output is a list of J tensors (N,C,4,H,W); level j equals pywt.swt2(level=J, '
        'trim_approx=False)[J-j] as (cA,cH,cV,cD); the extracted operator commutes with every circular shift (dy,dx); '
        'distinct_nontrivial = distinct non-zero extracted operators')
ASSUMPTIONS = ['C07 (linearity)', 'pywt.swt2 is the reference model']
CHUNK = 1


def sizes(J, tier, L):
    s = 2 ** J
    hi = 16 if tier == 'quick' else 24
    if L > 20:
        hi = 8 if tier == 'quick' else 16
    g = list(range(s, hi + 1, s))
    if tier == 'thorough' and J == 1:
        g = [x for x in g if x <= 12 or x % 4 == 0]
    out = [(h, w) for h in g for w in g]
    if tier == 'thorough' and L <= 20:
        out += [(h, s) for h in range(hi + s, 49, s)] + [(s, h) for h in range(hi + s, 49, s)]
    if len(out) > 9:
        # full grid for short filters only; others: diagonal + extremes of the grid (H != W kept)
        if L > (8 if tier == 'quick' else 12):
            out = sorted(set([(g[0], g[0]), (g[0], g[-1]), (g[-1], g[0]), (g[-1], g[-1]), (g[1], g[2 % len(g)]), (g[2 % len(g)], g[1])]))
    return out


def bounds(tier):
    return {'wavelets': len(dwt.wavelets(tier)), 'modes': ['<constructor default>', 'periodic'], 'J': '1..3',
            'sizes': 'multiples of 2^J up to %d' % (16 if tier == 'quick' else 24)}


def plan(tier):
    items = []
    for w in dwt.wavelets(tier):
        L = dwt.flen(w)
        for mode in (None, 'periodic'):
            for J in (1, 2, 3):
                for hw in sizes(J, tier, L):
                    items.append({'wave': w, 'mode': mode, 'J': J, 'h': hw[0], 'w': hw[1]})
            # deeper levels (the dilation is a function of the level index, so the level loop is NOT uniform in it)
            if L <= 20:
                items.append({'wave': w, 'mode': mode, 'J': 4, 'h': 16, 'w': 16})
            if L <= 8:
                items.append({'wave': w, 'mode': mode, 'J': 4, 'h': 32, 'w': 16})
                items.append({'wave': w, 'mode': mode, 'J': 5, 'h': 32, 'w': 32})
    return items


def required_regimes(tier):
    return {'mode:default', 'mode:periodic', 'J:1', 'J:2', 'J:3', 'J:4', 'J:5', 'size:h!=w', 'filter_longer_than_image', 'shift_commutation', 'channels:2', 'variant:no_grad'}


def run(item):
    common.init_worker()
    import torch
    import pywt
    from pytorch_wavelets.dwt.transform2d import SWTForward
    res = Res()
    w, mode, J, h, ww = item['wave'], item['mode'], item['J'], item['h'], item['w']
    L = dwt.flen(w)
    cfg = {'wave': w, 'mode': mode or '<default>', 'J': J, 'h': h, 'w': ww}
    tags = ['mode:' + ('default' if mode is None else mode), 'J:%d' % J]
    if h != ww:
        tags.append('size:h!=w')
    if L * 2 ** (J - 1) > min(h, ww):
        tags.append('filter_longer_than_image')
    for j in range(J):
        res.state(w, mode, J, j, h, ww)
    P = h * ww
    X = common.eye_batch((h, ww))
    try:
        co = pywt.swt2(X[:, 0], w, level=J, trim_approx=False, axes=(-2, -1))
    except Exception:
        res['ood'] += 1
        return res
    ref = []
    for j in range(J):
        cA, (cH, cV, cD) = co[J - 1 - j]
        ref.append(np.stack([cA, cH, cV, cD], axis=1)[:, None])         # (P,1,4,h,w)
    res['impl_calls'] += 1
    try:
        m = SWTForward(J=J, wave=w) if mode is None else SWTForward(J=J, wave=w, mode=mode)
        out = m(torch.as_tensor(X))
    except Exception as e:
        res.violation('swt_vs_pywt', cfg, {'kind': 'raise', 'exc': repr(e)[:200]}, tags)
        return res
    res['transitions'] += J
    res['evals'] += P
    res.regime(*tags)
    try:
        with torch.no_grad():
            o_ng = m(torch.as_tensor(X))
        res.regime('variant:no_grad')
        if len(o_ng) != len(out) or any(a_.shape != b_.shape or not torch.equal(a_, b_) for a_, b_ in zip(o_ng, out)):
            res.violation('swt_vs_pywt', dict(cfg, variant='no_grad'), {'kind': 'value_or_shape', 'what': 'result under no_grad differs'}, tags)
    except Exception as e:
        res.violation('swt_vs_pywt', dict(cfg, variant='no_grad'), {'kind': 'raise', 'exc': repr(e)[:200]}, tags)
    if not isinstance(out, (list, tuple)) or len(out) != J:
        res.violation('swt_vs_pywt', cfg, {'kind': 'structure', 'observed': 'len %s' % (len(out) if hasattr(out, '__len__') else type(out))}, tags)
        return res
    impl = [o.numpy() for o in out]
    for j in range(J):
        if impl[j].shape != (P, 1, 4, h, ww):
            res.violation('swt_vs_pywt', cfg, {'kind': 'shape', 'level': j + 1, 'observed': list(impl[j].shape[1:]),
                                               'expected': [1, 4, h, ww]}, tags)
            return res
    Ai, _ = flat(impl)
    Ar, _ = flat(ref)
    d = cmp_mats(Ai, Ar)
    if d is not None:
        res.violation('swt_vs_pywt', cfg, d, tags)
    res.op(Ai)
    # two channels at once (channel 1 carries the impulses in reverse order): every level of every channel equals the reference
    if P <= 256 and J <= 3:
        X2 = np.concatenate([X, X[::-1]], axis=1)
        try:
            o2 = m(torch.as_tensor(X2))
            res['impl_calls'] += 1
            res['evals'] += P
            res.regime('channels:2')
            for j in range(J):
                g = o2[j].numpy()
                e0, e1 = ref[j][:, 0], ref[j][::-1, 0]
                if g.shape != (P, 2, 4, h, ww) or common.maxabs(g[:, 0] - e0) > common.TOL * max(1.0, common.maxabs(e0)) or \
                        common.maxabs(g[:, 1] - e1) > common.TOL * max(1.0, common.maxabs(e1)):
                    res.violation('swt_vs_pywt', dict(cfg, channels=2), {'kind': 'value_or_shape', 'level': j + 1, 'shape': list(g.shape)}, tags)
                    break
        except Exception as e:
            res.violation('swt_vs_pywt', dict(cfg, channels=2), {'kind': 'raise', 'exc': repr(e)[:200]}, tags)
    # shift equivariance on the extracted operator: A[(j,b,y,x),(y0,x0)] == A[(j,b,y+dy,x+dx),(y0+dy,x0+dx)] for all shifts
    A6 = Ai.reshape(J, 4, h, ww, h, ww)
    worst = 0.0
    # commutation with the two generators (1,0) and (0,1) of the shift group implies commutation with every shift (dy,dx)
    for (dy, dx) in ((1, 0), (0, 1)):
        B = np.roll(np.roll(A6, dy, axis=2), dy, axis=4) if dy else np.roll(np.roll(A6, dx, axis=3), dx, axis=5)
        worst = max(worst, float(np.abs(B - A6).max()))
    res.regime('shift_commutation')
    res['evals'] += 2
    if worst > common.TOL * max(1.0, common.maxabs(Ai)):
        res.violation('shift_equivariance', cfg, {'kind': 'value', 'maxdev': worst, 'tol': common.TOL}, tags)
    if (h, ww, J) == (8, 16, 2) or (h, ww, J) == (8, 8, 2):
        res.sample({'config': cfg, 'impulses': P, 'levels': J, 'band_tensor_shape': list(impl[0].shape[1:]), 'shifts_checked': h * ww - 1})
    return res
